#!/bin/sh
# development helper: every stored seeded change against the check of its property (scratch worktree, never /repo). usage: tools/seed_matrix.sh [seed]
cd "$(dirname "$0")/.." || exit 2
for d in seeded/*/; do
  id=$(basename $d); prop=$(python3 -c "import json;print(json.load(open('$d/meta.json'))['property'])")
  echo "$id: $(timeout 1500 env MUT_SEEDS="${1:-7}" tools/mutant_test.sh $d/patch.diff $prop 2>&1 | grep -a "^CAUGHT\|^MISSED\|PATCH-DOES" | cut -c1-160)"
done
