import json,glob,re,sys
for f in sorted(glob.glob('/verif/replays/C03/*-????????.json')):
    d=json.load(open(f)); print('=====',d['sig']); c=d['case'];
    print('inits',{k:v for k,v in c['inits'].items() if v}, 'inputs', {k:v for k,v in c['inputs'].items() if v}, 'helpers', c['helpers'])
    det=d['detail']; print(det[:det.find('// ----')][:500])
    for nm in sys.argv[1:] or ['v_base']:
        i=det.find('mixed %s('%nm)
        if i>=0:
            j=det.find('\n}\n',i); body=det[i:j]
            body='\n'.join(l for l in body.split('\n') if not re.match(r'\s+(int|float|string|mapping|mixed|int \*) \w+ = ',l))
            print(body)
