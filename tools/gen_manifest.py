#!/usr/bin/env python3
"""Regenerates MANIFEST.json from the table below (development-time helper)."""
import json, os, subprocess
V = os.path.dirname(os.path.dirname(os.path.abspath(__file__)))
ALL = ["C%02d" % i for i in range(1, 21)]
# property -> (level category, technique, level text, level note)
CLAIMED = {
 "C01": ("exploration", "property-based testing (Hypothesis) over an operator/efun/frame matrix with boundary-value pool, crash oracle under ASan+UBSan in forked driver children",
         "Generated LPC programs apply every operator, index/range/lvalue form and every efun of the generated efun table to boundary values of every runtime type through five frame kinds; each runs in a forked in-process driver under ASan+UBSan; any sanitizer report, signal, exit()/fatal() or pc outside the bytecode is a violation. Sampled, not exhaustive.",
         "Trusts ASan/UBSan to expose memory errors (over-reads inside one malloc block are invisible); shutdown() excluded; timeouts are inconclusive."),
 "C03": ("exploration", "property-based differential testing (Hypothesis): typed LPC program grammar vs independent reference evaluator, plus metamorphic sibling spellings",
         "Programs from a typed expression/statement grammar over the language core are rendered in up to 11 equivalent spellings (run-time args vs literals vs macros, op= vs expanded, ++ vs +1, switch vs if-chain, for vs while, local vs global, typed vs mixed, direct vs function-pointer vs call_other calls); all spellings run in one forked driver and must agree with each other and with a Python reference evaluator written from the manual. Sampled, bounded program size.",
         "Reference evaluator is trusted for the core it covers; computations it leaves undefined (INT64_MIN/-1, shift counts outside 0..63, negative range indexes, s[strlen(s)], sign of zero, resource-limit hits, compile-time rejection of constant division/index) are discarded and counted; differing error classes between two possible error sites are accepted (evaluation order)."),
 "C04": ("exploration", "property-based testing (Hypothesis) of program shapes x driver configurations with an instruction-counting / size-sampling dispatch hook as monitor",
         "56 looping / recursing / allocating program shapes x 0-3 nested catches x generated driver configurations (fresh driver per configuration). The H1 hook counts dispatched instructions (an evaluation passing 2 x MaxEvaluationCost + 200 is stopped and reported), samples control- and value-stack depth and the sizes of the top stack values at every instruction; never-ending shapes must return to the harness as an uncatchable limit error; memory errors while a limit should have struck are violations.",
         "Work inside one efun call is not counted by evaluation cost; sizes are sampled on the top three stack slots and the returned value; efuns whose results ignore MaxStringLength are listed as known findings."),
 "C10": ("exploration", "model-based property testing (Hypothesis histories vs a reference scheduler) through the real backend loop with a virtual clock",
         "Histories of call_out/remove_call_out/find_call_out (by name, by handle, remove-all), owner destruction, failing callbacks and operations issued from inside callbacks, interleaved with ticks of spacing 1..100 s, run through the real backend()/call_out() code with an interposed clock and scripted timer ticks; a reference scheduler decides which call_outs must fire in which tick, with which arguments, and what find/remove must return.",
         "Order of callbacks within one tick is unspecified (compared as a multiset); a removal issued from a callback in the tick where its target is due may or may not win."),
 "C11": ("exploration", "property-based testing (Hypothesis histories) with invariant oracle over a sequence-numbered invocation log, through the real backend loop",
         "Populations of 1-8 heart-beat objects with intervals 1-4 and scripts performing set_heart_beat(self/other), destruct(self/other), load-and-enable and error inside heart_beat, plus the same actions between ticks; 5-40 scripted ticks through the real call_heart_beat(). Invariants: at most one call per tick, no call after disable/destruct completed, exact period in error-free runs, failing object switched off, query_heart_beat agrees with the model after every tick.",
         "The first call after (re-)enabling is accepted in a window of ticks (the statement does not fix it); ticks with an error are excluded from the period rule."),
 "C16": ("exploration", "property-based round-trip and mutation testing (Hypothesis) plus fault enumeration of a save at every system-call boundary (strace SIGKILL injection)",
         "Generated nested values (64-bit ints, floats, UTF-8 strings with every escape-worthy byte, arrays, mappings, class instances up to and past the nesting limit) are round-tripped through save_variable/restore_variable and save_object/restore_object (with static and object-valued variables); valid, truncated and byte-mutated save texts are restored (value or LPC error, re-save stable, no sanitizer report); a save_object replacing an existing file is killed at every file-related system call and the file must hold exactly the old or the new contents.",
         "Floats compared to the printed precision (relative 2e-6); subnormal floats and '\\r' in strings excluded by construction (the latter is a listed known finding); crash points are system-call boundaries."),
 "C07": ("exploration", "property-based testing (Hypothesis): generated inheritance graphs x call histories; metamorphic history-independence oracle plus a Python resolver for visibility/resolution",
         "Inheritance graphs (1-5 programs, multiple inheritance, inherit and function modifiers) and call histories over eight origins (call_other by variable and by literal name, driver apply, call_out through the real backend by variable and literal name, local call, function pointer, function_exists). Every call's outcome must equal the same call made first in a fresh driver; hidden functions must not answer call_other while driver-made and local calls run them; results are compared with a Python resolver where it is unambiguous; the tag returned proves the callee's variable offset.",
         "Resolution/visibility expectations only where the resolver is certain (no private hiding, no diamond with mixed modifiers)."),
 "C20": ("exploration", "stateful model-based property testing (Hypothesis histories vs a Python model of the uid rules)",
         "Histories of driver loads, load/clone/call_other-by-path by objects, seteuid, export_uid, destruct and master policy changes over files with root / backbone / wizard / open / non-string creators; after every step the (uid, euid) census of all live objects is compared with the model, creation by an euid-0 object must raise an error and create nothing, and the master's apply log must show valid_seteuid / creator_file consulted.",
         "Model written from docs/efuns/seteuid.md, export_uid.md, the master applies docs and give_uid_to_object()'s documented rules (same uid, AUTO_TRUST_BACKBONE)."),
 "C08": ("exploration", "stateful property-based testing (Hypothesis histories with re-entrant hooks) with a C invariant walker over the driver's object structures and an efun cross-view check",
         "Histories of load/clone/move/destruct/enable_commands/set_living_name/add_action/command/present/find_living over up to 30 objects, with armed hooks that move, destruct, clone or fail from inside create/init/move_or_destruct/id; after every top-level step the harness walks obj_list, the destruct list, the name hash, inventories, the living hash, heart beats and user slots, and an LPC cross-view compares objects()/find_object/environment/all_inventory/livings/heart_beats and every reference ever held.",
         "Consistency invariants only; no exact abstract model of every operation's outcome."),
 "C15": ("exploration", "bounded-exhaustive enumeration plus property-based generation (Hypothesis) of paths x file efuns x master policies, oracle over merged master-apply and interposed libc file-call logs",
         "All path strings over {a,b,.,/,#,space} up to length 4/5 (pairs up to 2 for two-path efuns) and generated long/dotted/hidden/over-long paths, for 21 file efuns, 7 loader forms (#include \"\", <>, inherit, load_object, clone_object, find_object(p,1), call_other) and three master policies. Per call: master asked first with path, caller and operation; denied means no libc file call and failure reported; every libc path is relative, has no '..' component and is the approved path or derived from it; canary files beside the mudlib stay untouched.",
         "Link-time interposition covers the path-taking libc functions the repository imports; ed() needs an interactive and is not driven; loaders are held to the path rules only."),
 "C09": ("fault_enumeration", "property-based fault injection (Hypothesis event histories x fault plans x error-handler variants) through the real backend loop with canary observers",
         "Histories of ticks (also before any connection, and 2000 s jumps), telnet/ASCII connects, complete/partial lines, TTYPE/NAWS sub-negotiations, orderly and reset disconnects, reconnects, with error() injected into 13 task kinds once/twice/always and a master error_handler that logs, fails or is absent. The driver must stay alive with no sanitizer report, backend() must not return, a canary user's command, a canary heart beat and canary call_outs must still be served, and every fired fault must be reported.",
         "Network mode only (console worker not driven); when the master's handler itself fails, the driver's report of that failure counts as the report."),
 "C12": ("exploration", "model-based property testing (Hypothesis arrival patterns vs a per-user queue model) over real loopback connections and the real backend loop",
         "1-10 users, gaps from closed connections, 3-25 cycles with generated arrivals (one packet, trickled, partial lines), 'multi' commands issuing command() three times and 'kick' commands destructing another user mid-cycle; a cycle marker is taken before every backend cycle. In every cycle exactly the users with a complete line waiting execute exactly one buffered command, in the order sent; command()-issued commands all run in the same cycle.",
         "Telnet ports only; single-character mode not driven; the model follows the order in which the driver served users within a cycle (which is unspecified)."),
 "C13": ("exploration", "metamorphic property testing (Hypothesis byte streams x segmentations) over real loopback connections, plus a reference split for plain streams",
         "Streams from a telnet/line grammar (text, CR/LF/NUL combinations, backspace/DEL, IAC IAC, IAC commands, option negotiation, complete/unterminated/oversized sub-negotiations, lines up to 3000 bytes) on telnet and ASCII ports, each fed in four segmentations (one write, byte-wise, random cuts, cuts inside every CR LF / IAC construct); the lines handed to the user object must be identical for all segmentations (lines <= 400 bytes), contain no negotiation bytes, and the connection must still deliver a probe line afterwards.",
         "Over-long lines are only required to be handled safely; the absolute reference is asserted for plain streams only."),
 "C14": ("fault_enumeration", "model-based property testing (Hypothesis write sequences x injected send() result schedules) comparing the bytes received on the client socket with a reference ring model",
         "Write sequences with lengths around the 4096-byte ring and explicit flushes, under schedules of full / partial (incl. ending exactly at the wrap point) / EWOULDBLOCK / EINTR / EPIPE send() results injected at the libc boundary; the bytes read back from the real client socket must equal the reference ring model's output (in order, LF as CR LF, nothing duplicated, only the tail of a message dropped when the ring is full, nothing after EPIPE).",
         "All writes of a case happen in one evaluation so that flush attempts occur only where the model expects them."),
}
NA_REASON = "check not yet built in this session (machinery under construction; see DESIGN.md section 4 for the planned check)"

def main():
    checks = []
    for p in ALL:
        if p not in CLAIMED:
            continue
        cat, tech, text, note = CLAIMED[p]
        checks.append(dict(property_id=p, quick_cmd="./check %s --tier quick" % p, thorough_cmd="./check %s --tier thorough" % p,
                           evidence_file="/verif/evidence/%s.json" % p, replay_cmd_template="./check %s --replay {path}" % p,
                           engine="pbt", level_claimed=dict(category=cat, text=text, design_ref="DESIGN.md section 4, %s" % p),
                           level_note=note, technique=tech))
    hooks = subprocess.run(["git", "-C", "/repo", "log", "--format=%H %s"], capture_output=True, text=True).stdout.splitlines()
    hook_commits = [l.split()[0] for l in hooks if "verif hook" in l]
    m = dict(version=1, setup_cmd="./setup.sh",
             hooks=dict(guard="NEOLITH_VERIF", enable="checks configure an out-of-tree cmake build of /repo with -DNEOLITH_VERIF in CMAKE_C_FLAGS/CMAKE_CXX_FLAGS (pbt/build.py)",
                        baseline_off_cmd="./baseline_off.sh", source_commits=hook_commits, add_only=True),
             engines=[dict(name="pbt", path="pbt/", serves_properties=sorted(CLAIMED), kind_free_text="Hypothesis-driven generators + oracles driving lpcvm, an in-process neolith driver harness (fork per case, ASan+UBSan, link-time interposers)"),
                      dict(name="lpcvm", path="harness/", serves_properties=sorted(CLAIMED), kind_free_text="C++ harness built inside /repo's own cmake graph from the working tree")],
             checks=checks,
             notes="Every check rebuilds /repo's working tree incrementally into $VERIF_WORK (default /var/tmp/neolith-verif). VERIF_SEED selects the generator seed.",
             not_applicable=[dict(property_id=p, reason=NA_REASON) for p in ALL if p not in CLAIMED])
    json.dump(m, open(os.path.join(V, "MANIFEST.json"), "w"), indent=1)

if __name__ == "__main__":
    main()
