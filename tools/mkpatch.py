#!/usr/bin/env python3
"""development helper: make a unified diff against /repo for a textual replacement.  mkpatch.py <relpath> <old> <new> <out.diff>"""
import difflib, sys
rel, old, new, out = sys.argv[1:5]
src = open("/repo/" + rel).read()
assert src.count(old) == 1, "pattern occurs %d times" % src.count(old)
dst = src.replace(old, new)
d = difflib.unified_diff(src.splitlines(True), dst.splitlines(True), "a/" + rel, "b/" + rel)
open(out, "w").write("".join(d))
