#!/usr/bin/env python3
"""development helper: store a confirmed seeded change under /verif/seeded/<id>/ (patch.diff, demonstration, meta.json).
usage: tools/save_seed.py <id> <property> '<needs>' '<caught-by summary>'"""
import json, os, shutil, subprocess, sys
sid, prop, needs, caught = sys.argv[1:5]
PFX = os.environ.get("PFX", "seed")
src = "/tmp/%s-%s-out" % (PFX, sid)
dst = "/verif/seeded/%s%s" % (sid, "-2" if PFX == "seed2" else ("-3" if PFX == "seed3" else ""))
os.makedirs(dst, exist_ok=True)
for name in os.listdir(src):
    p = os.path.join(src, name)
    if os.path.isdir(p):
        d2 = os.path.join(dst, name)
        if os.path.isdir(d2):
            shutil.rmtree(d2)
        shutil.copytree(p, d2, ignore=shutil.ignore_patterns("_build*", "*.o", "*.a", "CMakeFiles"))
    elif os.path.getsize(p) < 400000 and not (os.access(p, os.X_OK) and not name.endswith((".sh", ".py"))):
        shutil.copy(p, os.path.join(dst, name))
log = "/var/tmp/nv-mut/confirm-%s-%s.log" % (PFX, sid)
conf = open(log, errors="replace").read() if os.path.exists(log) else ""
result = [l for l in conf.splitlines() if l.startswith("RESULT")]
meta = dict(id=os.path.basename(dst), property=prop, base_commit=subprocess.run(["git", "-C", "/tmp/seed-%s" % sid, "rev-parse", "HEAD"], capture_output=True, text=True).stdout.strip(),
            needs_to_manifest=needs,
            confirmed=dict(how="tools/confirm_seed.sh %s in the sub-agent's scratch worktree: patch applied, project built, ctest -j8 passed, run_demo.sh with the change "
                               "(exit status 'with') and after reverting it (exit status 'without')" % sid, result=result[-1] if result else "not run"),
            checks=caught,
            apply="git -C /repo apply %s/patch.diff ; ./check %s --tier quick ; git -C /repo checkout -- ." % (dst, prop))
json.dump(meta, open(os.path.join(dst, "meta.json"), "w"), indent=1)
print("saved", dst, result[-1:] )
