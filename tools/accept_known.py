#!/usr/bin/env python3
"""Development-time helper (never run by a check): list replays/<prop>/*.json that no entry of
known_findings.json refers to, and add them as status=known entries with an exact-signature regex.
Usage: tools/accept_known.py C01 [--what 'text' file.json]"""
import json, os, re, sys
V = os.path.dirname(os.path.dirname(os.path.abspath(__file__)))
kf_path = os.path.join(V, "known_findings.json")
kf = json.load(open(kf_path))
prop = sys.argv[1]
listed = {os.path.basename(k.get("replay", "")) for k in kf["findings"]}
d = os.path.join(V, "replays", prop)
n = sum(1 for k in kf["findings"] if k["property"] == prop and k["status"] == "known")
for name in sorted(os.listdir(d)):
    if name in listed or not name.endswith(".json"):
        continue
    r = json.load(open(os.path.join(d, name)))
    n += 1
    case = json.dumps(r["case"])
    what = "%s on %s" % (r["sig"], case[:300])
    kf["findings"].append(dict(status="known", id="KF-%s-%d" % (prop, n), property=prop, sig_re="^" + re.escape(r["sig"]) + "$",
                               what=what, replay="replays/%s/%s" % (prop, name)))
    print("added", "KF-%s-%d" % (prop, n), r["sig"])
json.dump(kf, open(kf_path, "w"), indent=1)
