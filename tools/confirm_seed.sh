#!/bin/sh
# development helper: confirm a sub-agent's seeded change in ITS scratch worktree: (1) patch is applied and the project's
# tests pass, (2) the demonstration fails with the change, (3) passes without it.   usage: tools/confirm_seed.sh C07
id=$1; PFX=${PFX:-seed}; WT=/tmp/$PFX-$id; OUT=/tmp/$PFX-$id-out; LOG=/var/tmp/nv-mut/confirm-$PFX-$id.log
exec > $LOG 2>&1
cd $WT || exit 2
git checkout -q -- src lib tests CMakeLists.txt 2>/dev/null; git clean -fdq tests 2>/dev/null
git apply $OUT/patch.diff || { echo "RESULT patch-does-not-apply"; exit 1; }
cmake -S . -B _build >/dev/null 2>&1; cmake --build _build >/dev/null 2>&1 || { echo "RESULT build-fails-with-change"; exit 1; }
ctest --test-dir _build -j8 --timeout 900 2>&1 | tail -3
ctest --test-dir _build -j8 --timeout 900 >/dev/null 2>&1 || ctest --test-dir _build -j8 --timeout 900 >/dev/null 2>&1 || { echo "RESULT tests-fail-with-change"; exit 1; }
echo "--- demo WITH change"; (cd $OUT && sh ./run_demo.sh) > $LOG.with 2>&1; w=$?; tail -5 $LOG.with
git checkout -q -- src lib; git apply -R --check $OUT/patch.diff 2>/dev/null && echo "revert failed"
cmake --build _build >/dev/null 2>&1
echo "--- demo WITHOUT change"; (cd $OUT && sh ./run_demo.sh) > $LOG.without 2>&1; wo=$?; tail -5 $LOG.without
git apply $OUT/patch.diff
echo "RESULT with=$w without=$wo"
