#!/bin/sh
# development helper: sweep seeds for one property, accepting every new finding as known (to be triaged by hand afterwards)
# usage: tools/sweep.sh C01 1 10 [tier]
prop=$1; a=$2; b=$3; tier=${4:-quick}
cd "$(dirname "$0")/.." || exit 2
for s in $(seq $a $b); do
  VERIF_SEED=$s nice -n 5 ./check $prop --tier $tier 2>&1 | grep -E "^(VIOLATION|$prop|INCONC|failure|HARNESS)" | sed "s/^/seed=$s /"
  tools/accept_known.py $prop
done
