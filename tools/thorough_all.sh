#!/bin/sh
# development helper: thorough tier of every property, one after another, results appended to /var/tmp/thorough-all.log
cd "$(dirname "$0")/.." || exit 2
for p in ${PROPS:-C15 C20 C11 C12 C09 C13 C14 C10 C08 C07 C16 C06 C04 C19 C17 C03 C02 C18 C01 C05}; do
  t0=$(date +%s)
  out=$(VERIF_NO_EVIDENCE=1 VERIF_SEED=${SEED:-31} timeout ${TMO:-4200} nice -n 5 ./check $p --tier thorough 2>&1 | grep -a -E "^(VIOLATION|C[0-9][0-9] tier|INCONC|failure)" | cut -c1-300 | tr '\n' ' ')
  echo "$p ($(( $(date +%s) - t0 )) s): $out" >> /var/tmp/thorough-all.log
done
