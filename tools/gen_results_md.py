#!/usr/bin/env python3
"""development helper: regenerates the tables of DESIGN.md section 8 (between the RESULTS markers) from known_findings.json and seeded/*/meta.json"""
import json, os, re
V = os.path.dirname(os.path.dirname(os.path.abspath(__file__)))
kf = json.load(open(os.path.join(V, "known_findings.json")))["findings"]
out = []
out.append("#### 8.4.1 Genuine defects repaired (`fix:` commits in /repo, one root cause each)\n")
out.append("| property | commit | what failed | replay |\n|---|---|---|---|")
for f in kf:
    if f.get("status") == "fixed":
        what = re.sub(r"^fixed: property=C\d\d \w+ ", "", f["entry"])
        out.append("| %s | %s | %s | `%s` |" % (f["property"], f.get("commit", "?"), what.replace("|", "\\|"), f.get("replay", "")))
out.append("\n#### 8.4.2 Known findings (genuine, not repaired; matched by signature, printed as KNOWN-FINDING)\n")
out.append("| id | property | what fails | why not repaired here |\n|---|---|---|---|")
for f in kf:
    if f.get("status") == "known":
        out.append("| %s | %s | %s | %s |" % (f.get("id"), f["property"], (f.get("what") or f.get("entry", "")).replace("|", "\\|")[:400], (f.get("why_not_fixed") or "see 8.4.3").replace("|", "\\|")))
out.append("\n#### 8.5.1 Seeded changes (written by sub-agents that saw only the property text; '-2' = second round, told to avoid the first round's function)\n")
out.append("| seed | needs to manifest | result |\n|---|---|---|")
for d in sorted(os.listdir(os.path.join(V, "seeded"))):
    m = json.load(open(os.path.join(V, "seeded", d, "meta.json")))
    out.append("| %s | %s | %s |" % (d, m["needs_to_manifest"].replace("|", "\\|"), m["checks"].replace("|", "\\|")))
text = "\n".join(out) + "\n"
p = os.path.join(V, "DESIGN.md")
s = open(p).read()
a, b = "<!-- RESULTS-BEGIN -->", "<!-- RESULTS-END -->"
if a in s:
    s = s[:s.index(a) + len(a)] + "\n" + text + s[s.index(b):]
    open(p, "w").write(s)
else:
    print(text)
