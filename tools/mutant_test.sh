#!/bin/sh
# development helper: run checks against a patched scratch worktree of /repo (never /repo itself).
# usage: tools/mutant_test.sh <patch.diff> <prop> [<prop> ...]     (env MUT_SEEDS="0 1" optional, MUT_TIER=quick)
patch=$(realpath "$1"); shift
WT=/var/tmp/nv-mut/wt
export VERIF_WORK=/var/tmp/nv-mut/work
mkdir -p /var/tmp/nv-mut
if [ ! -d $WT ]; then git -C /repo worktree add --detach $WT HEAD >/dev/null 2>&1 || exit 2; fi
git -C $WT checkout -q --detach $(git -C /repo rev-parse HEAD) && git -C $WT checkout -q -- . && git -C $WT clean -fdq
git -C $WT apply "$patch" || { echo "PATCH-DOES-NOT-APPLY $patch"; exit 3; }
export VERIF_REPO=$WT
cd "$(dirname "$0")/.." || exit 2
for p in "$@"; do
  for s in ${MUT_SEEDS:-0}; do
    out=$(VERIF_SEED=$s VERIF_NO_EVIDENCE=1 ./check $p --tier ${MUT_TIER:-quick} 2>&1)
    if echo "$out" | grep -q "^VIOLATION"; then echo "CAUGHT $p seed=$s: $(echo "$out" | grep -m1 '^failure: sig=' )"; else echo "MISSED $p seed=$s: $(echo "$out" | grep "^$p tier" | cut -c1-160)"; fi
  done
done
git -C $WT checkout -q -- . ; git -C $WT clean -fdq
