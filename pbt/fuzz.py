"""libFuzzer campaigns shared by the properties that have a coverage-guided target (C02 has its own copy, written first)."""
import os, re, subprocess

from . import build
from .worker import _lift_limits, BASE_MUDLIB, DEFAULT_CONF

ENV = dict(ASAN_OPTIONS="detect_leaks=0:abort_on_error=0:symbolize=1")


def setup(root, files, corpus, dictionary):
    import shutil
    m = os.path.join(root, "mudlib")
    if os.path.isdir(root):
        shutil.rmtree(root)
    shutil.copytree(BASE_MUDLIB, m)
    for path, text in files.items():
        fp = os.path.join(m, path)
        os.makedirs(os.path.dirname(fp), exist_ok=True)
        open(fp, "w").write(text)
    conf = dict(DEFAULT_CONF, MudlibDir=m)
    open(os.path.join(root, "fz.conf"), "w").write("".join("%s\t%s\n" % kv for kv in conf.items()))
    os.makedirs(os.path.join(root, "corpus")); os.makedirs(os.path.join(root, "art"))
    for i, data in enumerate(corpus):
        open(os.path.join(root, "corpus", "seed%d" % i), "wb").write(data)
    with open(os.path.join(root, "dict"), "w") as d:
        for t in dictionary:
            d.write('"%s"\n' % "".join(c if 32 < ord(c) < 127 and c not in '"\\' else "\\x%02x" % ord(c) for c in t))
    return root


def run_file(target, root, path):
    exe = build.binary("fuzz", target)
    env = dict(os.environ, VERIF_FUZZ_CONF=os.path.join(root, "fz.conf"), **ENV)
    r = subprocess.run([exe, path], capture_output=True, env=env, preexec_fn=_lift_limits, timeout=120)
    return r.returncode != 0, r.stderr.decode("latin-1")


def signature(err, tag):
    if tag + "-ORACLE" in err:
        return "fuzz:" + err.split(tag + "-ORACLE:")[1].split("\n")[0].strip().replace(" ", "-")[:70]
    if "SUMMARY: AddressSanitizer" in err:
        return "fuzz:asan:" + err.split("SUMMARY: AddressSanitizer:")[1].split("\n")[0].strip()[:90]
    return "fuzz:crash"


def campaign(ctx, target, tag, root, runs, max_len=4096):
    exe = build.binary("fuzz", target)
    before = set(os.listdir(os.path.join(root, "corpus")))
    env = dict(os.environ, VERIF_FUZZ_CONF=os.path.join(root, "fz.conf"), **ENV)
    cmd = [exe, "-max_len=%d" % max_len, "-runs=%d" % runs, "-seed=%d" % ((ctx.hseed % (2 ** 31 - 2)) + 1), "-dict=" + os.path.join(root, "dict"),
           "-artifact_prefix=" + os.path.join(root, "art") + "/", "-timeout=60", "-rss_limit_mb=3500", "-print_final_stats=1", os.path.join(root, "corpus")]
    try:
        r = subprocess.run(cmd, capture_output=True, env=env, preexec_fn=_lift_limits, timeout={"quick": 600, "thorough": 7200}[ctx.tier])
        err = r.stderr.decode("latin-1")
    except subprocess.TimeoutExpired:
        ctx.inconclusive["fuzz-campaign-timeout"] += 1
        return
    m = re.search(r"stat::number_of_executed_units:\s*(\d+)", err)
    execs = int(m.group(1)) if m else 0
    cov = re.findall(r"cov: (\d+) ft: (\d+)", err)
    new = sorted(set(os.listdir(os.path.join(root, "corpus"))) - before)
    ctx.evaluations += execs
    for f in new:
        ctx.nontrivial.add("fuzz:" + f)           # inputs that reached new coverage features
    ctx.classes["fuzz:executed"] += execs
    ctx.classes["fuzz:new-coverage-inputs"] += len(new)
    ctx.extra.setdefault("fuzz", []).append(dict(shard=ctx.shard, target=target, executed=execs, cov=int(cov[-1][0]) if cov else 0,
                                                 features=int(cov[-1][1]) if cov else 0, new_inputs=len(new)))
    for a in sorted(os.listdir(os.path.join(root, "art"))):
        if not (a.startswith("crash-") or a.startswith("leak-")):
            ctx.inconclusive["fuzz:" + a.split("-")[0]] += 1     # timeout / oom / slow-unit are load noise
            continue
        path = os.path.join(root, "art", a)
        crashed, e2 = run_file(target, root, path)
        if not crashed:
            ctx.inconclusive["fuzz:artifact-does-not-reproduce"] += 1
            continue
        data = open(path, "rb").read()
        sig = signature(e2, tag)
        if ctx.is_known(sig):
            ctx.known_seen[ctx.is_known(sig)["id"]] += 1
            continue
        ctx.failures.append(dict(sig=sig, case=dict(kind="fuzz", target=target, data=data.decode("latin-1")),
                                 detail="libFuzzer artifact %s (%d bytes)\n%r\n%s" % (a, len(data), data[:600], e2[-3000:])))
