"""Client of lpcvm's pipe protocol + crash triage. One Worker = one lpcvm server
process on one mudlib directory with one configuration; every case it runs is
executed in a forked child of that server (DESIGN.md 2.3)."""
import json, os, re, shutil, subprocess, tempfile

from . import build

VERIF = build.VERIF
BASE_MUDLIB = os.path.join(VERIF, "mudlib", "base")

DEFAULT_CONF = {
    "SimulEfunFile": "/simul_efun.c",
    "MasterFile": "/master.c",
    "LogWithDate": "No",
    "MaxEvaluationCost": "1000000",
}


def esc(a):
    if isinstance(a, str):
        a = a.encode("latin-1")
    elif isinstance(a, int):
        a = str(a).encode()
    if not a:
        return b"%_"
    out = bytearray()
    for c in a:
        if (48 <= c <= 57) or (65 <= c <= 90) or (97 <= c <= 122) or c in b"/._-:":
            out.append(c)
        else:
            out += b"%%%02x" % c
    return bytes(out)


def arg(v):
    """encode a python value as a call-step argument (ints, floats, strings, objects by ("o", name))"""
    if isinstance(v, bool):
        return "i%d" % int(v)
    if isinstance(v, int):
        return "i%d" % v
    if isinstance(v, float):
        return "f" + float.hex(v)
    if isinstance(v, bytes):
        return b"s" + v
    if isinstance(v, str):
        return "s" + v
    if isinstance(v, tuple) and v[0] == "o":
        return "o" + v[1]
    raise TypeError(v)


def _lift_limits():
    # sanitizer runtimes reserve terabytes of address space: undo the shard's own RLIMIT_AS
    import resource
    soft, hard = resource.getrlimit(resource.RLIMIT_AS)
    resource.setrlimit(resource.RLIMIT_AS, (hard, hard))


class CaseResult:
    def __init__(self, recs, exit_rec):
        self.recs = recs          # list of dict records from the child
        self.exit = exit_rec      # dict: kind, sig/code, stderr
        self.by_step = {}
        for r in recs:
            if "i" in r:
                self.by_step.setdefault(r["i"], []).append(r)

    def step(self, i, st=None):
        for r in self.by_step.get(i, []):
            if st is None or r.get("st") == st:
                return r
        return None

    @property
    def stderr(self):
        return self.exit.get("stderr", "")

    @property
    def completed(self):
        return any(r.get("st") == "done" for r in self.recs)

    def crash(self):
        """returns None or a (kind, signature, detail) triple describing a listed C01 outcome"""
        e = self.exit
        err = e.get("stderr", "")
        if "bind() failed" in err or "socket() failed" in err:
            return None      # the sandbox ran out of ports / descriptors: environmental, see env_failure
        m = re.search(r"ERROR: AddressSanitizer: ([\w-]+)", err)
        if m:
            return ("asan", m.group(1) + "@" + first_repo_frame(err), err[:6000])
        m = re.search(r"([\w/.+-]+):(\d+):\d+: runtime error: (.*)", err)
        if m:
            return ("ubsan", "%s:%s" % (os.path.basename(m.group(1)), m.group(3)[:60]), err[:6000])
        for r in self.recs:
            if r.get("st") == "terminated":
                return ("terminated", "%s(%s)@%s" % (r.get("how"), r.get("code"), fatal_line(err)), err[-6000:])
        if e.get("kind") == "signal":
            return ("signal", "sig%d" % e.get("sig"), err[-6000:])
        if e.get("kind") == "exit" and e.get("code") != 0:
            return ("exit", "code%d" % e.get("code"), err[-6000:])
        if e.get("kind") == "exit" and not self.completed:
            return ("vanished", "child exited 0 without finishing", err[-6000:])
        return None

    @property
    def timed_out(self):
        err = self.exit.get("stderr", "")
        return self.exit.get("kind") == "timeout" or "bind() failed" in err or "socket() failed" in err


def first_repo_frame(err):
    first = None
    for m in re.finditer(r"#\d+ 0x[0-9a-f]+ in (\S+) (\S+)", err):
        fn, loc = m.group(1), m.group(2)
        if "/repo/" in loc or (build.REPO.rstrip("/") + "/") in loc:
            return "%s(%s)" % (fn, os.path.basename(loc.split(":")[0]))
        if first is None and not fn.startswith("__interceptor") and not fn.startswith("__asan") and not fn.startswith("__sanitizer"):
            first = fn
    return "?" + (first or "")


def fatal_line(err):
    m = re.search(r"\*\*\*\*\* (.*)", err)
    return m.group(1)[:80] if m else "?"


class Worker:
    _seq = 0

    def __init__(self, rundir, conf=None, flavour="asan", console=False, timeout=20, mudlib_files=None, ports=None, keep_mudlib=False):
        """rundir: private scratch dir of this worker (created). The mudlib is rundir/mudlib."""
        self.rundir = rundir
        self.mudlib = os.path.join(rundir, "mudlib")
        if not (keep_mudlib and os.path.isdir(self.mudlib)):
            os.makedirs(rundir, exist_ok=True)
            if os.path.isdir(self.mudlib):
                shutil.rmtree(self.mudlib)
            shutil.copytree(BASE_MUDLIB, self.mudlib)
            os.makedirs(os.path.join(self.mudlib, "t"), exist_ok=True)
        for path, text in (mudlib_files or {}).items():
            self.write(path, text)
        c = dict(DEFAULT_CONF)
        c.update(conf or {})
        c["MudlibDir"] = self.mudlib
        self.confpath = os.path.join(rundir, "verif.conf")
        with open(self.confpath, "w") as f:
            for k, v in c.items():
                f.write("%s\t%s\n" % (k, v))
            for p in (ports or []):
                f.write("Port\t%s\n" % p)
        exe = build.binary(flavour, "lpcvm")
        env = dict(os.environ)
        env["ASAN_OPTIONS"] = "detect_leaks=0:abort_on_error=0:allocator_may_return_null=1:max_allocation_size_mb=1024:detect_stack_use_after_return=0:handle_segv=1:symbolize=1"
        env["UBSAN_OPTIONS"] = "print_stacktrace=1"
        env["TSAN_OPTIONS"] = "halt_on_error=0"
        cmd = [exe, "-f", self.confpath, "--timeout", str(timeout), "--errfile", os.path.join(rundir, "stderr.txt")]
        if console:
            cmd.append("--console")
        self.proc = subprocess.Popen(cmd, stdin=subprocess.PIPE, stdout=subprocess.PIPE, cwd=rundir, env=env, preexec_fn=_lift_limits)
        line = self.proc.stdout.readline()
        if not line or json.loads(line).get("st") != "ready":
            err = ""
            try:
                err = open(os.path.join(rundir, "stderr.txt"), errors="replace").read()[-3000:]
            except OSError:
                pass
            raise RuntimeError("lpcvm failed to start: %r\n%s" % (line, err))

    def write(self, path, text):
        p = os.path.join(self.mudlib, path.lstrip("/"))
        os.makedirs(os.path.dirname(p), exist_ok=True)
        mode = "wb" if isinstance(text, bytes) else "w"
        with open(p, mode) as f:
            f.write(text)
        return p

    def remove(self, path):
        try:
            os.unlink(os.path.join(self.mudlib, path.lstrip("/")))
        except OSError:
            pass

    def run(self, steps):
        buf = bytearray()
        for s in steps:
            buf += b" ".join(esc(a) for a in s) + b"\n"
        buf += b"END\n"
        self.proc.stdin.write(buf)
        self.proc.stdin.flush()
        recs = []
        while True:
            line = self.proc.stdout.readline()
            if not line:
                raise RuntimeError("lpcvm server died")
            if not line.strip():
                continue
            try:
                r = json.loads(line)
            except ValueError:
                # a record cut short by the child's death may have the parent's exit record glued to it
                k = line.rfind(b'{"st":"exit"')
                if k > 0:
                    recs.append({"st": "garbled", "raw": line[:200].decode("latin-1")})
                    try:
                        r = json.loads(line[k:])
                    except ValueError:
                        continue
                else:
                    recs.append({"st": "garbled", "raw": line[:200].decode("latin-1")})
                    continue
            if r.get("st") == "exit":
                return CaseResult(recs, r)
            recs.append(r)

    def close(self):
        try:
            self.proc.stdin.close()
            self.proc.wait(timeout=10)
        except Exception:
            self.proc.kill()


def unjson(v):
    """JSON value from lpcvm -> canonical python value:
    int, ("f", float), str (latin-1), ("a", [..]), ("m", [(k,v)..]), ("c",[..]), ("b", hex), ("o", name), ("fp", kind)"""
    if isinstance(v, int):
        return v
    if isinstance(v, str):
        return v
    if isinstance(v, dict):
        if "f" in v:
            return ("f", float.fromhex(v["f"]) if v["f"] not in ("inf", "-inf", "nan", "-nan") else float(v["f"].replace("-nan", "nan")))
        if "a" in v:
            return ("a", [unjson(x) for x in v["a"]])
        if "c" in v:
            return ("c", [unjson(x) for x in v["c"]])
        if "m" in v:
            return ("m", [(unjson(k), unjson(x)) for k, x in v["m"]])
        if "b" in v:
            return ("b", v["b"])
        if "o" in v:
            return ("o", v["o"])
        if "fp" in v:
            return ("fp", v["fp"])
        return ("?", repr(v))
    return ("?", repr(v))
