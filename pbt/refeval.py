"""Independent reference semantics for the covered LPC core (C03), written from docs/manual/lpc.md,
docs/internals/int64-design.md and C semantics for the arithmetic the manual defers to C for:
two's-complement 64-bit integers, IEEE doubles, truncating division/remainder, int->float promotion in
mixed arithmetic, "%lf"-style rendering of floats in string concatenation, array subtraction as
remove-all-members, bounds rules. An AST (nested tuples) is both rendered to LPC text (in several
equivalent spellings) and evaluated here.

Expression nodes (each carries its static type T in {"I","F","S","A","M"}):
  ("lit",T,v) ("var",T,name) ("bin",T,op,l,r) ("un",T,op,e) ("cond",T,c,a,b) ("idx","I",e,i)
  ("ridx","I",e,i) ("rng",T,e,i,j) ("sizeof","I",e) ("arr","A",[e..]) ("call",T,fname,[args]) ("tofloat","F",e)
  ("midx","I",m,k) ("mk1","M",k,v)
Statement nodes:
  ("assign",target,op,e)  target = ("v",T,name) | ("elem",name,idx)  | ("melem",name,key)
  ("incdec",target,kind)  kind in "++x","x++","--x","x--"
  ("if",c,[then],[else]) ("for",var,lo,hi,[body]) ("while",c,[body],guardvar) ("dowhile",c,[body],guardvar)
  ("whiledec",var,[body],guardvar) ("switch",e,[([labels],[body])],hasdefault) ("foreach",var,e,[body])
  ("break",) ("continue",) ("return",e)
"""
import math, struct

M64 = (1 << 64) - 1
IMIN, IMAX = -(1 << 63), (1 << 63) - 1


def wrap(v):
    v &= M64
    return v - (1 << 64) if v >> 63 else v


class LpcError(Exception):
    def __init__(self, cls):
        Exception.__init__(self, cls)
        self.cls = cls


class Unspecified(Exception):
    """the reference semantics do not define this computation (discard the case, counted)"""


class Break(Exception):
    pass


class Continue(Exception):
    pass


class Return(Exception):
    def __init__(self, v):
        self.v = v


def fmt_float(x):
    if math.isnan(x) or math.isinf(x):
        raise Unspecified("non-finite float rendered")
    return "%f" % x


def truthy(v):
    return not (isinstance(v, int) and v == 0) and not (isinstance(v, float) and v == 0.0 and False)


class Ref:
    def __init__(self, funcs, max_steps=20000):
        self.funcs = funcs      # name -> (params [(T,name)], [stmts])
        self.steps = 0
        self.max_steps = max_steps
        self.globals = {}
        self.depth = 0

    # ---- expressions
    def ev(self, e, env):
        self.steps += 1 + (len(env.get("a0", ())) >> 4)    # big containers make every step expensive
        if self.steps > self.max_steps:
            raise Unspecified("too many steps")
        k = e[0]
        if k == "lit":
            v = e[2]
            if e[1] == "M":
                return {k: x for k, x in v}
            return list(v) if isinstance(v, list) else v
        if k == "var":
            name = e[2]
            if name in env:
                return env[name]
            return self.globals[name]
        if k == "bin":
            return self.binop(e[2], e[3], e[4], env)
        if k == "un":
            v = self.ev(e[3], env)
            op = e[2]
            if op == "-":
                return wrap(-v) if isinstance(v, int) else -v
            if op == "~":
                return wrap(~v)
            if op == "!":
                return 1 if (isinstance(v, int) and v == 0) else 0
        if k == "cond":
            c = self.ev(e[2], env)
            return self.ev(e[3] if truthy(c) else e[4], env)
        if k == "idx" or k == "ridx":
            c = self.ev(e[2], env)
            i = self.ev(e[3], env)
            n = len(c)
            if k == "ridx":
                i = n - i
            if isinstance(c, str):
                if i == n:
                    raise Unspecified("s[strlen(s)] (MudOS tolerates reading the terminator)")
                if i < 0 or i > n:
                    raise LpcError("bounds")
                return ord(c[i])
            if i < 0 or i >= n:
                raise LpcError("bounds")
            return c[i]
        if k == "midx":
            m = self.ev(e[2], env)
            key = self.ev(e[3], env)
            return m.get(key, 0)
        if k == "rng":
            c = self.ev(e[2], env)
            i = self.ev(e[3], env)
            j = self.ev(e[4], env)
            if i < 0 or j < 0:
                raise Unspecified("negative range index (manual vs OLD_RANGE_BEHAVIOR)")
            n = len(c)
            if j >= n:
                j = n - 1
            if i > j or i >= n:
                return "" if isinstance(c, str) else []
            return c[i:j + 1]
        if k == "sizeof":
            return len(self.ev(e[2], env))
        if k == "mk1":
            key = self.ev(e[2], env)
            return {key: self.ev(e[3], env)}
        if k == "arr":
            return [self.ev(x, env) for x in e[2]]
        if k == "tofloat":
            return float(self.ev(e[2], env))
        if k == "call":
            args = [self.ev(a, env) for a in e[3]]
            return self.call(e[2], args)
        raise AssertionError(e)

    def binop(self, op, l, r, env):
        if op == "&&":   # a && b yields b when a is non-zero, else a (0)
            a = self.ev(l, env)
            if not truthy(a):
                return a
            return self.ev(r, env)
        if op == "||":   # a || b yields a when non-zero, else b
            a = self.ev(l, env)
            if truthy(a):
                return a
            return self.ev(r, env)
        a = self.ev(l, env)
        b = self.ev(r, env)
        if op in ("==", "!=", "<", "<=", ">", ">="):
            if isinstance(a, str) != isinstance(b, str):
                raise AssertionError("typed grammar never compares string with number")
            res = {"==": a == b, "!=": a != b, "<": a < b, "<=": a <= b, ">": a > b, ">=": a >= b}[op]
            if isinstance(a, float) and isinstance(b, int) or isinstance(a, int) and isinstance(b, float):
                fa, fb = float(a), float(b)
                res = {"==": fa == fb, "!=": fa != fb, "<": fa < fb, "<=": fa <= fb, ">": fa > fb, ">=": fa >= fb}[op]
            return 1 if res else 0
        if op == "+":
            if isinstance(a, str) or isinstance(b, str):
                sa = a if isinstance(a, str) else (fmt_float(a) if isinstance(a, float) else str(a))
                sb = b if isinstance(b, str) else (fmt_float(b) if isinstance(b, float) else str(b))
                if len(sa) + len(sb) > 60000:
                    raise Unspecified("string near the configured size limit")
                return sa + sb
            if isinstance(a, list):
                if len(a) + len(b) > 10000:
                    raise Unspecified("array near the configured size limit")
                return a + b
            if isinstance(a, dict):
                d = dict(a); d.update(b)
                if len(d) > 5000:
                    raise Unspecified("mapping near the configured size limit")
                return d
            if isinstance(a, int) and isinstance(b, int):
                return wrap(a + b)
            return float(a) + float(b)
        if op == "-":
            if isinstance(a, list):
                return [x for x in a if x not in b]
            if isinstance(a, int) and isinstance(b, int):
                return wrap(a - b)
            return float(a) - float(b)
        if op == "*":
            if isinstance(a, int) and isinstance(b, int):
                return wrap(a * b)
            return float(a) * float(b)
        if op == "/":
            if isinstance(a, int) and isinstance(b, int):
                if b == 0:
                    raise LpcError("div0")
                if a == IMIN and b == -1:
                    raise Unspecified("INT64_MIN / -1")
                q = abs(a) // abs(b)
                return wrap(q if (a < 0) == (b < 0) else -q)
            if float(b) == 0.0:
                raise LpcError("div0")
            return float(a) / float(b)
        if op == "%":
            if b == 0:
                raise LpcError("mod0")
            if a == IMIN and b == -1:
                raise Unspecified("INT64_MIN % -1")
            r_ = abs(a) % abs(b)
            return -r_ if a < 0 else r_
        if op == "&":
            return wrap(a & b)
        if op == "|":
            return wrap(a | b)
        if op == "^":
            return wrap(a ^ b)
        if op == "<<":
            if not 0 <= b <= 63:
                raise Unspecified("shift count")
            return wrap(a << b)
        if op == ">>":
            if not 0 <= b <= 63:
                raise Unspecified("shift count")
            return a >> b
        raise AssertionError(op)

    def call(self, name, args):
        params, body = self.funcs[name]
        self.depth += 1
        if self.depth > 30:
            raise Unspecified("deep recursion")
        env = {}
        for (t, n), v in zip(params, args):
            env[n] = v
        try:
            self.run(body, env)
            return 0
        except Return as r:
            return r.v
        finally:
            self.depth -= 1

    # ---- statements
    def store(self, target, v, env):
        if target[0] == "v":
            name = target[2]
            if name in env:
                env[name] = v
            else:
                self.globals[name] = v
        elif target[0] == "elem":
            arr = env[target[1]] if target[1] in env else self.globals[target[1]]
            i = self.ev(target[2], env)
            if i < 0 or i >= len(arr):
                raise LpcError("bounds")
            arr[i] = v
        else:
            m = env[target[1]] if target[1] in env else self.globals[target[1]]
            m[self.ev(target[2], env)] = v

    def load(self, target, env):
        if target[0] == "v":
            return env[target[2]] if target[2] in env else self.globals[target[2]]
        if target[0] == "elem":
            arr = env[target[1]] if target[1] in env else self.globals[target[1]]
            i = self.ev(target[2], env)
            if i < 0 or i >= len(arr):
                raise LpcError("bounds")
            return arr[i]
        m = env[target[1]] if target[1] in env else self.globals[target[1]]
        return m.get(self.ev(target[2], env), 0)

    def run(self, stmts, env):
        for s in stmts:
            self.stmt(s, env)

    def stmt(self, s, env):
        self.steps += 1
        if self.steps > self.max_steps:
            raise Unspecified("too many steps")
        k = s[0]
        if k == "assign":
            _, target, op, e = s
            if op == "=":
                self.store(target, self.ev(e, env), env)
            else:
                cur = ("lit", "?", self.load(target, env))
                # x op= y  is  x = x op y  with x's index evaluated once (index expressions here are side-effect free)
                v = self.binop(op[:-1], cur, e, env)
                self.store(target, v, env)
        elif k == "incdec":
            cur = self.load(s[1], env)
            d = 1 if "+" in s[2] else -1
            self.store(s[1], wrap(cur + d) if isinstance(cur, int) else cur + d, env)
        elif k == "if":
            self.run(s[2] if truthy(self.ev(s[1], env)) else s[3], env)
        elif k == "for":
            _, var, lo, hi, body = s
            env[var] = self.ev(lo, env)
            while env[var] < self.ev(hi, env):
                try:
                    self.run(body, env)
                except Break:
                    break
                except Continue:
                    pass
                env[var] = wrap(env[var] + 1)
        elif k == "while":
            _, c, body, g = s
            while truthy(self.ev(c, env)):
                env[g] = env[g] + 1
                if env[g] > 40:
                    break
                try:
                    self.run(body, env)
                except Break:
                    break
                except Continue:
                    pass
        elif k == "dowhile":
            _, c, body, g = s
            while True:
                env[g] = env[g] + 1
                if env[g] > 40:
                    break
                try:
                    self.run(body, env)
                except Break:
                    break
                except Continue:
                    pass
                if not truthy(self.ev(c, env)):
                    break
        elif k == "whiledec":
            _, var, body, g = s
            while True:
                cur = env[var]
                env[var] = wrap(cur - 1)
                if cur == 0:
                    break
                env[g] = env[g] + 1
                if env[g] > 40:
                    break
                try:
                    self.run(body, env)
                except Break:
                    break
                except Continue:
                    pass
        elif k == "switch":
            _, e, arms, _hasdef = s
            v = self.ev(e, env)
            start = None
            for ai, (labels, body) in enumerate(arms):
                for lab in labels:
                    if lab[0] == "default":
                        continue
                    if lab[0] == "range":
                        if isinstance(v, int) and lab[1] <= v <= lab[2]:
                            start = ai
                    elif lab[1] == v and type(lab[1]) == type(v):
                        start = ai
                if start is not None:
                    break
            if start is None:
                for ai, (labels, body) in enumerate(arms):
                    if any(l[0] == "default" for l in labels):
                        start = ai
            if start is not None:
                # every generated arm ends with 'break' (the renderer appends it), so exactly one arm runs
                try:
                    self.run(arms[start][1], env)
                except Break:
                    pass
        elif k == "foreach":
            _, var, e, body = s
            seq = self.ev(e, env)
            items = [ord(c) for c in seq] if isinstance(seq, str) else list(seq)
            for it in items:
                env[var] = it
                try:
                    self.run(body, env)
                except Break:
                    break
                except Continue:
                    pass
        elif k == "break":
            raise Break()
        elif k == "continue":
            raise Continue()
        elif k == "return":
            raise Return(self.ev(s[1], env))
        else:
            raise AssertionError(s)


def canon(v):
    """python reference value -> the canonical form worker.unjson produces"""
    if isinstance(v, bool):
        return int(v)
    if isinstance(v, int):
        return v
    if isinstance(v, float):
        # the sign of zero is not compared: the compiler rewrites 0 - x to -x, which differs only there
        return ("f", "nan" if v != v else struct.pack(">d", v + 0.0 if v != 0.0 else 0.0).hex())
    if isinstance(v, str):
        return v
    if isinstance(v, list):
        return ("a", [canon(x) for x in v])
    if isinstance(v, dict):
        return ("m", sorted(((canon(k), canon(x)) for k, x in v.items()), key=repr))
    raise AssertionError(v)


def canon_impl(v):
    """worker.unjson value -> same canonical form (floats by bit pattern, mappings sorted)"""
    if isinstance(v, tuple):
        if v[0] == "f":
            return ("f", "nan" if v[1] != v[1] else struct.pack(">d", v[1] if v[1] != 0.0 else 0.0).hex())
        if v[0] == "a":
            return ("a", [canon_impl(x) for x in v[1]])
        if v[0] == "m":
            return ("m", sorted(((canon_impl(k), canon_impl(x)) for k, x in v[1]), key=repr))
    return v
