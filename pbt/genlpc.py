"""Shared LPC generation pieces: value pool (boundary values of every runtime type),
efun table parsed from the repository's generated efun definitions, LPC string quoting."""
import os, re

from . import build


def lpc_str(b):
    """python bytes/str -> LPC string literal (octal/hex escapes for non printable)"""
    if isinstance(b, str):
        b = b.encode("latin-1")
    out = ['"']
    for c in b:
        ch = chr(c)
        if ch == '"' or ch == "\\":
            out.append("\\" + ch)
        elif ch == "\n":
            out.append("\\n")
        elif ch == "\r":
            out.append("\\r")
        elif ch == "\t":
            out.append("\\t")
        elif 32 <= c < 127:
            out.append(ch)
        else:
            out.append('" "\\x%02x" "' % c)   # split so a following hex digit is not swallowed
    out.append('"')
    return "".join(out)


# helper functions every generated test program may use (no efun other than basic ones)
PRELUDE = r'''
class VC { int x; mixed y; }
mixed g0, g1, g2;
void create() { seteuid(getuid()); }
string rep(string s, int n) { string r = ""; while (n > 0) { if (n & 1) r += s; s += s; n >>= 1; if (strlen(s) > 300000) break; } return r; }
mixed *mkarr(int n) { mixed *a = allocate(n); int i; for (i = 0; i < n && i < 8; i++) a[i] = i; return a; }
mapping mkmap(int n) { mapping m = ([ ]); int i; for (i = 0; i < n; i++) m[i] = i * 2; return m; }
mixed selfarr() { mixed *a = ({ 0, 1 }); a[0] = a; return a; }
mixed selfmap() { mapping m = ([ ]); m["me"] = m; m[m] = 1; return m; }
mixed sharedarr() { mixed *e = ({ 1, 2 }); return ({ e, e, ({ e }) }); }
mixed mkclass() { class VC c = new(class VC); c->x = 5; c->y = ({ 1 }); return c; }
mixed emptyclass() { return new(class VC); }
mixed deadob() { object o = new("/t/dummy"); mixed *h = ({ o }); destruct(o); return h[0]; }
mixed liveob() { return new("/t/dummy"); }
mixed holder_dead() { object o = new("/t/dummy"); mixed *h = ({ o, 1 }); destruct(o); return h; }
int lfun2(mixed a, mixed b) { return 1; }
mixed lfun_id(mixed a) { return a; }
mixed boundfp() { return (: lfun2, 1 :); }
'''

DUMMY = 'int id(string s) { return s == "dummy"; }\nmixed echo(mixed x) { return x; }\nvoid create() { }\n'

# (value class, runtime type, LPC expression)
INTS = [("i0", "0"), ("i1", "1"), ("im1", "(-1)"), ("i2", "2"), ("i7", "7"), ("i31", "31"), ("i32", "32"), ("i63", "63"), ("i64", "64"),
        ("i255", "255"), ("i256", "256"), ("i65535", "65535"), ("i65536", "65536"),
        ("i2p31m1", "2147483647"), ("i2p31", "2147483648"), ("im2p31", "(-2147483648)"), ("im2p31m1", "(-2147483649)"),
        ("i2p32", "4294967296"), ("i2p32p1", "4294967297"), ("im2p32", "(-4294967296)"), ("i2p32m1", "4294967295"),
        ("imax", "9223372036854775807"), ("imin", "(-9223372036854775807-1)"), ("imaxm1", "9223372036854775806")]
FLOATS = [("f0", "0.0"), ("fm0", "(-0.0)"), ("f1_5", "1.5"), ("fm2_5", "(-2.5)"), ("fhuge", "1.0e308"), ("ftiny", "1.0e-308"),
          ("fint", "4294967296.0"), ("fbig", "1.0e19"), ("fnan", "(to_float(\"nan\"))")]
STRINGS = [("s_empty", '""'), ("s_a", '"a"'), ("s_abc", '"abc def"'), ("s_fmt", '"%s%s%s%s%n%p%99999d"'), ("s_fmt2", '"%d %O %-*s"'),
           ("s_num", '"12345"'), ("s_mb", '"\\xe4\\xb8\\x96\\xe7\\x95\\x8c"'), ("s_hi", '"\\x80\\xff\\xfe"'),
           ("s_255", 'rep("x", 255)'), ("s_256", 'rep("y", 256)'), ("s_65535", 'rep("z", 65535)'), ("s_65536", 'rep("w", 65536)'),
           ("s_70000", 'rep("ab", 35000)'), ("s_pct_long", 'rep("%s", 5000)'), ("s_path", '"/t/dummy"'), ("s_dots", '"../../etc/passwd"'),
           ("s_re", '"(a*)*b["'), ("s_nl", '"a\\nb\\nc"'), ("s_fn", '"lfun2"'),
           # lengths around the driver's fixed text buffers (100, 128, 200, 256, 1000, 1024, 2048, 4096), plain and as words / path / verb
           ("s_99", 'rep("w", 99)'), ("s_100", 'rep("w", 100)'), ("s_101", 'rep("w", 101)'), ("s_128", 'rep("h", 128)'), ("s_200", 'rep("q", 200)'),
           ("s_1000", 'rep("k", 1000)'), ("s_1023", 'rep("k", 1023)'), ("s_1024", 'rep("k", 1024)'), ("s_2047", 'rep("m", 2047)'),
           ("s_2048", 'rep("m", 2048)'), ("s_2049", 'rep("m", 2049)'), ("s_4097", 'rep("n", 4097)'), ("s_words", 'rep("word ", 300)'),
           ("s_longpath", '"/" + rep("d/", 700) + "x"'), ("s_verb", 'rep("v", 100) + " arg"'), ("s_dotc", 'rep("p", 250) + ".c"'),
           ("s_re_end", '"a*a{2}|$"'), ("s_re_star", '"x*"'), ("s_subject", '"aab xx abaab xx ab"')]
ARRAYS = [("a_empty", "({ })"), ("a_1", "({ 1 })"), ("a_mixed", '({ 1, "a", 2.5, ({ }) })'), ("a_8", "mkarr(8)"), ("a_1000", "mkarr(1000)"),
          ("a_max", "mkarr(15000)"), ("a_self", "selfarr()"), ("a_shared", "sharedarr()"), ("a_str", '({ "b", "a", "c" })'),
          ("a_dead", "holder_dead()"), ("a_nested", "({ ({ ({ 1 }) }) })"),
          # regular expressions that match the empty string / only at the end, with a token array of the same size (reg_assoc, regexp)
          ("a_re", '({ "a*a{2}|$", "$" })'), ("a_re2", '({ "x*", "(a|b)*c|^" })'), ("a_tok2", "({ 1, 2 })")]
MAPPINGS = [("m_empty", "([ ])"), ("m_1", "([ 1 : 2 ])"), ("m_str", '([ "a" : 1, "b" : ({ 2 }) ])'), ("m_100", "mkmap(100)"),
            ("m_self", "selfmap()"), ("m_big", "mkmap(3000)")]
CLASSES = [("c_inst", "mkclass()"), ("c_empty", "emptyclass()")]
BUFFERS = [("b_0", "allocate_buffer(0)"), ("b_1", "allocate_buffer(1)"), ("b_4", "allocate_buffer(4)"), ("b_1000", "allocate_buffer(1000)")]
FUNCS = [("fp_lfun", "(: lfun2 :)"), ("fp_efun", "(: sizeof :)"), ("fp_expr", "(: $1 + $2 :)"), ("fp_bound", "boundfp()"),
         ("fp_anon", "function(mixed a) { return a; }"), ("fp_err", '(: error("in fp\\n") :)')]
OBJECTS = [("o_this", "this_object()"), ("o_dead", "deadob()"), ("o_live", "liveob()"), ("o_master", "master()")]
UNDEF = [("undef", "([ ])[0]")]

POOL = {"int": INTS, "float": FLOATS, "string": STRINGS, "array": ARRAYS, "mapping": MAPPINGS, "class": CLASSES,
        "buffer": BUFFERS, "function": FUNCS, "object": OBJECTS}
ALL_VALUES = [(cls, ty, ex) for ty, lst in POOL.items() for cls, ex in lst]

# T_* bit -> pool type
TBITS = {0x2: "int", 0x4: "string", 0x8: "array", 0x10: "object", 0x20: "mapping", 0x40: "function", 0x80: "float", 0x100: "buffer", 0x200: "class"}
TNAMES = {"T_NUMBER": 0x2, "T_STRING": 0x4, "T_ARRAY": 0x8, "T_OBJECT": 0x10, "T_MAPPING": 0x20, "T_FUNCTION": 0x40, "T_REAL": 0x80,
          "T_BUFFER": 0x100, "T_CLASS": 0x200, "T_ANY": 0x3fe}


def efun_table(flavour="asan"):
    """[(name, min_args, max_args(-1 = varargs), [arg type masks x4])] from the generated efuns_definition.h"""
    bdir = build.build(flavour, ["lpcvm"])
    txt = open(os.path.join(bdir, "lib", "efuns", "efuns_definition.h")).read()
    out = []
    for m in re.finditer(r'^\{"(\w+)",([^,]+),0,0,(-?\d+),(-?\d+),([^,]+),([^,]+),([^,]+),([^,]+),([^,]+),(-?\d+),([^}]+)\}', txt, re.M):
        name = m.group(1)
        mn, mx = int(m.group(3)), int(m.group(4))
        masks = []
        for g in m.group(6, 7, 8, 9):
            v = 0
            for part in g.split("|"):
                v |= TNAMES.get(part.strip(), 0)
            masks.append(v)
        out.append((name, mn, mx, masks, m.group(11).strip()))
    return out


def types_of_mask(mask):
    return [t for bit, t in TBITS.items() if mask & bit] or list(POOL.keys())
