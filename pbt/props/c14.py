"""C14 - output reaches the client in order, exactly once, under any write pattern.

Sequences of writes (lengths around the 4 KiB ring, LF density 0-100 %) with explicit flush points, under a
scripted schedule of send() results (full, partial of every size incl. ending exactly at the ring's wrap
point, EWOULDBLOCK runs, EINTR, EPIPE) injected by the link-time send() interposer; the bytes really
received on the client socket are compared with a reference model of the 4096-byte output ring."""
from hypothesis import strategies as st

from .. import runner
from ..worker import Worker, arg, unjson

LEVEL = "fault_enumeration"
RULE = ("cases = (list of writes and explicit flushes, schedule of send() results); write lengths from {0,1,2,100,4094..4098,8192,20000} and random, LF "
        "density 0/10/50/100 %; schedules of F(ull) / P(artial n, with n chosen to end at the wrap point, 1, len-1, random) / W(ould block) / I(EINTR) / "
        "E(PIPE). non-trivial = a partial send ended exactly at the wrap point, or the ring became exactly full, or one message exceeded the ring; "
        "distinct = (length vector, schedule) hash")
ASSUMPTIONS = ["the reference model is the statement's ring: 4096 bytes, bytes leave only through send(), LF is stored as CR LF and never split by a drop, "
               "when the ring is full one flush is attempted and if it is still full the rest of the message being added is dropped",
               "send() results are injected at the libc boundary (-Wl,--wrap=send); accepted bytes really travel over loopback TCP and are read back from the client socket",
               "all writes of one case happen in one evaluation, so flush attempts happen only where the model expects them (ring full, explicit flush_messages, end of cycle)"]
NONTRIVIAL_FLOOR = {"quick": 150, "thorough": 3000}

RING = 4096
PREFIX = 12        # bytes of telnet negotiation the driver sends at connect time (checked at run time)
LENS = [0, 1, 2, 3, 100, 1000, 2047, 2048, 4093, 4094, 4095, 4096, 4097, 4098, 5000, 8192, 20000]


@st.composite
def cases(draw):
    nm = draw(st.integers(1, 8))
    ops = []
    for i in range(nm):
        n = draw(st.one_of(st.sampled_from(LENS), st.integers(0, 6000)))
        dens = draw(st.sampled_from([0, 0, 10, 50, 100]))
        ops.append(dict(op="w", n=n, lf=dens, tag=i))
        r = draw(st.integers(0, 9))
        if r < 2:
            ops.append(dict(op="flush"))
        elif r < 4:
            ops.append(dict(op="v"))         # the configured default fail message: queued by add_vmessage, which flushes at its end
    plan = []
    for _ in range(draw(st.integers(0, 14))):
        k = draw(st.sampled_from(["F", "F", "P", "P", "P", "W", "W", "I", "E" if draw(st.integers(0, 5)) == 0 else "W"]))
        if k == "P":
            plan.append(["P", draw(st.one_of(st.just(1), st.just("wrap"), st.just("all-1"), st.integers(1, 5000)))])
        else:
            plan.append([k, 0])
    return dict(ops=ops, plan=plan)


def message(op):
    """deterministic content: tagged tokens, with LF inserted at the requested density"""
    n, lf, tag = op["n"], op["lf"], op["tag"]
    out = bytearray()
    i = 0
    while len(out) < n:
        tok = ("%c%04d." % (65 + tag % 26, i)).encode()
        out += tok
        if lf and (i * 37 + tag) % 100 < lf:
            out += b"\n"
        i += 1
    out = out[:n]
    if lf == 100:
        out = bytearray(b"\n" * n)
    return bytes(out)


FAILMSG = b"Zonk? no such verb here"


class RingModel:
    """reference model of the output ring and of flush_message's use of send()"""
    def __init__(self, plan):
        self.buf = bytearray()
        self.cons = PREFIX % RING    # consumer index modulo RING: the connect-time negotiation has already passed through the ring
        self.plan = list(plan)
        self.pi = 0
        self.sent = bytearray()
        self.dead = False
        self.plan_resolved = []
        self.hit_wrap = self.hit_full = False

    def flush(self):
        if self.dead:
            return False
        while self.buf:
            chunk = min(len(self.buf), RING - self.cons)         # send() is given the contiguous part up to the wrap point
            if self.pi < len(self.plan):
                k, n = self.plan[self.pi]
                self.pi += 1
            else:
                k, n = "F", 0
            if k in ("W", "I"):
                return True
            if k == "E":
                self.dead = True
                return False
            if k == "P":
                if n == "wrap":
                    n = chunk            # ends exactly at the wrap point when the data wraps
                elif n == "all-1":
                    n = max(chunk - 1, 1)
                n = max(1, min(int(n), chunk))
                self.plan_resolved.append(n)
                if n == chunk and chunk < len(self.buf):
                    self.hit_wrap = True
            else:
                n = chunk
            self.sent += self.buf[:n]
            del self.buf[:n]
            self.cons = (self.cons + n) % RING
        return True

    def add(self, data):
        if self.dead:
            return
        for ch in data:
            if len(self.buf) == RING:
                self.hit_full = True
                if not self.flush():
                    return
                if len(self.buf) == RING:
                    return                      # the tail of this message is dropped
            if ch == 10:
                if len(self.buf) == RING - 1:
                    if not self.flush():
                        return
                    if len(self.buf) == RING - 1:
                        return                  # never split CR LF: drop from here
                self.buf.append(13)
            self.buf.append(ch)


DAEMON = r'''
object user;
void set_user(object u) { user = u; }
object query_user() { return user; }
string make(int n, int lf, int tag) {
  string out = "";
  int i;
  if (lf == 100) return repeat_string("\n", n);
  while (strlen(out) < n) {
    out += sprintf("%c%04d.", 65 + tag % 26, i);
    if (lf && (i * 37 + tag) % 100 < lf) out += "\n";
    i++;
  }
  return out[0..n - 1];
}
mapping msgs = ([ ]);
void prepare(int tag, int n, int lf) { msgs[tag] = n ? make(n, lf, tag) : ""; }
int emit(string plan) {
  // plan: "w3,f,w0,..." : write message 3, flush, write message 0 ...
  foreach (string s in explode(plan, ",")) {
    if (s == "f") flush_messages(user);
    else if (s == "v") user->vcmd();
    else tell_object(user, msgs[to_int(s[1..])]);
  }
  return 1;
}
'''
USER = r'''
void create() { seteuid(getuid()); }
void logon() { "/t/c14d"->set_user(this_object()); enable_commands(); }
int vcmd() { return command("zzqx nothing"); }
mixed process_input(string s) { return 1; }
void net_dead() { }
void write_prompt() { }
void catch_tell(string s) { }
'''


def evaluate_case(ctx, w, case):
    ops, plan = case["ops"], case["plan"]
    model = RingModel(plan)
    for o in ops:
        if o["op"] == "flush":
            model.flush()
        elif o["op"] == "v":
            model.add(FAILMSG + b"\n")
            if model.buf:
                model.flush()
        else:
            model.add(message(o))
    in_call_sent = bytes(model.sent)
    # after the evaluation the schedule is cleared and everything still in the ring drains
    rest_dead = model.dead
    model.plan = []
    model.pi = 0
    model.flush()
    expected = bytes(model.sent)
    if max([o.get("n", 0) for o in ops] or [0]) > RING:
        pass
    # resolve symbolic partial sizes for the interposer by running the model's decisions: the interposer takes concrete sizes
    conc = []
    pr = iter(model.plan_resolved)
    for k, n in plan:
        if k == "P":
            try:
                conc.append("P:%d" % next(pr))
            except StopIteration:
                conc.append("P:1")
        else:
            conc.append(k)
    steps = [["load", "t/c14d.c"], ["backend"], ["connect", "c", "0"], ["cycle", "3"], ["recv", "c"]]
    for o in ops:
        if o["op"] == "w":
            steps.append(["call", "t/c14d", "prepare", arg(o["tag"]), arg(o["n"]), arg(o["lf"])])
    steps.append(["sendlog"])
    steps.append(["sendplan"] + conc)
    steps.append(["call", "t/c14d", "emit", arg(",".join("f" if o["op"] == "flush" else ("v" if o["op"] == "v" else "w%d" % o["tag"]) for o in ops))])
    emit_i = len(steps) - 1
    steps.append(["sendplan"])
    steps.append(["sendlog"])
    steps.append(["cycle", "12"])
    steps.append(["recv", "c"])
    recv_i = len(steps) - 1
    steps.append(["endbackend"])
    res = w.run(steps)
    info = "ops %r\nschedule %r (concrete %r)" % (ops, plan, conc)
    if res.timed_out:
        ctx.inconclusive["timeout"] += 1
        return None, None
    cr = res.crash()
    if cr:
        return ("crash:" + cr[1][:70], info + "\n" + cr[2][:2500]), None
    er = res.step(emit_i)
    if not er or er.get("st") != "val":
        return ("emit-failed", "%r\n%s" % (er, info)), None
    pre = res.step(4, "data")
    if not pre or len(pre["d"]) != PREFIX:
        ctx.inconclusive["unexpected-connect-prefix"] += 1
        return None, None
    rr = res.step(recv_i, "data")
    if not rr:
        return ("no-client-data-record", info), None
    got = rr["d"].encode("latin-1")
    if got != expected:
        # describe the first difference
        k = 0
        while k < min(len(got), len(expected)) and got[k] == expected[k]:
            k += 1
        kind = "lost" if len(got) < len(expected) and expected.startswith(got) else ("extra" if len(got) > len(expected) and got.startswith(expected) else "differs")
        return ("client-stream-%s%s" % (kind, ":after-epipe" if rest_dead else ""),
                "client received %d bytes, the ring model expects %d; first difference at %d: got %r expected %r\n%s" % (
                    len(got), len(expected), k, got[k:k + 40], expected[k:k + 40], info)), None
    return None, dict(wrap=model.hit_wrap, full=model.hit_full, big=any(o.get("n", 0) > RING for o in ops), dead=rest_dead, nbytes=len(expected))


_workers = {}


def get_worker(ctx):
    w = _workers.get(ctx.rundir)
    if w is None:
        w = Worker(ctx.scratch("w"), timeout=30, mudlib_files={"t/c14d.c": DAEMON, "user.c": USER}, ports=["4000:telnet"],
                   conf={"DefaultFailMsg": FAILMSG.decode()})
        _workers[ctx.rundir] = w
    return w


def close_workers(ctx):
    w = _workers.pop(ctx.rundir, None)
    if w:
        w.close()


def check(ctx, case):
    f, info = evaluate_case(ctx, get_worker(ctx), case)
    if f:
        ctx.evaluations += 1
        ctx.fail(f[0], case, f[1])
        return
    if info is None:
        ctx.case_done(None, ["not-executed"])
        return
    nt = info["wrap"] or info["full"] or info["big"]
    cl = [k for k in ("wrap", "full", "big", "dead") if info[k]]
    ctx.case_done(runner.khash(case) if nt else None, cl or ["plain"], sample=dict(lengths=[o.get("n", "flush") for o in case["ops"]], schedule=case["plan"]))


def shard_main(ctx):
    from hypothesis import given
    n = {"quick": 800, "thorough": 12000}[ctx.tier]

    @given(cases())
    def test(case):
        check(ctx, case)

    try:
        runner.run_hypothesis(ctx, test, n)
    finally:
        close_workers(ctx)


def replay(ctx, case):
    try:
        f, _ = evaluate_case(ctx, get_worker(ctx), case)
        return f
    finally:
        close_workers(ctx)
