"""C09 - no event history or failing task takes the driver down.

Histories of external events (tick before any connection, connect, partial input, disconnect at any moment,
reconnect) with an error injected into each kind of task (command handler, process_input, logon, net_dead,
write_prompt, terminal_type / window_size callbacks, master connect, heart_beat, call_out, reset, init,
input_to callback), once or every time, with a master error_handler that is absent, logging or itself failing.
The real backend() runs in the child. Oracle: the driver stays alive and keeps serving canaries."""
from hypothesis import strategies as st

from .. import runner
from ..worker import Worker, arg, unjson, BASE_MUDLIB
import os

LEVEL = "fault_enumeration"
RULE = ("cases = histories of 3-40 external events (ticks of 1..2000 s incl. as very first event, connects on telnet and ASCII ports, complete and "
        "partial lines, telnet TTYPE/NAWS sub-negotiations, orderly and reset disconnects, reconnects) x a fault plan (a fault in one or several of 13 task "
        "kinds, once or always; the fault is error() or - kinds destruct / exec / remove - the object taking itself or its connection away inside the task) x master error_handler {logging, failing, absent}. non-trivial = at least one injected fault fired and a canary was "
        "observed afterwards; distinct = (fault sites, handler variant, event-kind sequence)")
ASSUMPTIONS = ["console mode is not driven (its worker thread reads the harness's stdin); network mode only",
               "canaries: a second user's command sent after the history must be executed, a canary heart-beat object must be called on every later "
               "tick, a canary call_out must fire in the tick it is due"]
NONTRIVIAL_FLOOR = {"quick": 120, "thorough": 2000}

SITES = ["cmd", "process_input", "logon", "net_dead", "write_prompt", "terminal_type", "window_size", "connect", "heart_beat", "call_out", "reset",
         "init", "input_to"]

DAEMON = r'''
object *users = ({ });
mapping faults = ([ ]);
mixed *log = ({ });
int reg(object u) { users += ({ u }); return sizeof(users) - 1; }
string kind = "error";
void set_kind(string k) { kind = k; }
string query_kind() { return kind; }
void set_fault(string site, int times) { faults[site] = times; }
int fault(string site) {
  int f = faults[site];
  if (!f) return 0;
  if (f > 0) faults[site] = f - 1;
  log += ({ ({ "fault", site, time() }) });
  return 1;
}
void note(mixed *x) { log += ({ x }); }
mixed *getlog() { return log; }
void arm_input_to(int u) { if (u < sizeof(users) && users[u]) users[u]->arm(); }
void move_into_room(int u) { if (u < sizeof(users) && users[u]) users[u]->enter("/t/c09room"); }
void start_callout() { call_out("co_canary", 3); call_out("co_faulty", 1); call_out("co_faulty", 2); }
void co_canary() { log += ({ ({ "co_canary", time() }) }); }
void co_faulty() { log += ({ ({ "co_faulty", time() }) }); if (fault("call_out")) error("fault in call_out\n"); }
'''
USER = r'''
int id = -1;
void create() { seteuid(getuid()); }
// what a faulting task of this user object does: raise an error, or take its own object / connection away in the middle of the task
void boom(string site) {
  switch ("/t/c09d"->query_kind()) {
  case "destruct": destruct(this_object()); return;
  case "exec": { object o = new("/t/c09user2"); exec(o, this_object()); return; }
  case "remove": remove_interactive(this_object()); return;
  }
  error("fault in " + site + "\n");
}
void logon() {
  id = "/t/c09d"->reg(this_object());
  "/t/c09d"->note(({ "logon", id }));
  enable_commands(); add_action("cmd_any", "", 1);
  if ("/t/c09d"->fault("logon")) boom("logon");
}
int cmd_any(string arg) {
  "/t/c09d"->note(({ "cmd", id, query_verb() }));
  if (query_verb() != "canary" && "/t/c09d"->fault("cmd")) boom("cmd");
  return 1;
}
mixed process_input(string s) { if (s != "canary" && "/t/c09d"->fault("process_input")) boom("process_input"); return 0; }
void net_dead() { "/t/c09d"->note(({ "net_dead", id })); if ("/t/c09d"->fault("net_dead")) boom("net_dead"); }
void write_prompt() { if ("/t/c09d"->fault("write_prompt")) boom("write_prompt"); }
void set_terminal_type(string t) { if ("/t/c09d"->fault("terminal_type")) boom("terminal_type"); }
void set_window_size(int w, int h) { if ("/t/c09d"->fault("window_size")) boom("window_size"); }
void arm() { input_to("got_input"); }
void got_input(string s) { "/t/c09d"->note(({ "input_to", id, s })); if ("/t/c09d"->fault("input_to")) boom("input_to"); }
void enter(string room) { move_object(load_object(room)); }
void catch_tell(string s) { }
'''
ROOM = r'''
void create() { seteuid(getuid()); }
void init() { if ("/t/c09d"->fault("init")) error("fault in init\n"); }
'''
HB = r'''
int n;
void create() { seteuid(getuid()); set_heart_beat(1); }
// (for these two sites the kinds other than "error" all mean: the object destructs itself inside the task)
void boom(string site) { if ("/t/c09d"->query_kind() != "error" && NAME == "faulty") { destruct(this_object()); return; } error("fault in " + site + "\n"); }
void heart_beat() { n++; "/t/c09d"->note(({ "hb", file_name(this_object()), time() })); if (NAME == "faulty" && "/t/c09d"->fault("heart_beat")) boom("heart_beat"); }
int reset() { "/t/c09d"->note(({ "reset", file_name(this_object()) })); if ("/t/c09d"->fault("reset")) boom("reset"); return 1; }
int query() { return query_heart_beat(this_object()); }
'''


@st.composite
def cases(draw):
    handler = draw(st.sampled_from(["log", "log", "fail", "absent"]))
    nf = draw(st.integers(1, 3))
    faults = [[draw(st.sampled_from(SITES)), draw(st.sampled_from([1, 1, 2, -1]))] for _ in range(nf)]
    ev = []
    nconn = 0
    for _ in range(draw(st.integers(3, 40))):
        k = draw(st.integers(0, 11))
        if k <= 1:
            ev.append(["tick", draw(st.sampled_from([1, 1, 1, 2, 5, 2000]))])
        elif k <= 3 and nconn < 6:
            ev.append(["connect", nconn, draw(st.sampled_from([0, 0, 1]))]); nconn += 1
        elif k <= 6 and nconn:
            ev.append(["line", draw(st.integers(0, nconn - 1)), draw(st.sampled_from(["look", "say hi", "x", "", "!esc"]))])
        elif k == 7 and nconn:
            ev.append(["partial", draw(st.integers(0, nconn - 1))])
        elif k == 8 and nconn:
            ev.append(["close", draw(st.integers(0, nconn - 1)), draw(st.sampled_from(["fin", "rst"]))])
        elif k == 9 and nconn:
            ev.append(["telnet", draw(st.integers(0, nconn - 1)), draw(st.sampled_from(["ttype", "naws"]))])
        elif k == 10 and nconn:
            ev.append([draw(st.sampled_from(["input_to", "move"])), draw(st.integers(0, nconn - 1))])
        else:
            ev.append(["tick", 1])
    # what "fault" means for the tasks of a user object: error(), or the object / its connection goes away inside the task
    return dict(handler=handler, faults=faults, events=ev, kind=draw(st.sampled_from(["error", "error", "destruct", "exec", "remove"])))


def evaluate_case(ctx, pool, case):
    w = pool.get(case["handler"])
    steps = [["load", "t/c09d.c"], ["call", "/master", "set_policy", arg("handler"), arg("fail" if case["handler"] == "fail" else "log")]]
    steps.append(["call", "t/c09d", "set_kind", arg(case.get("kind", "error"))])
    for site, times in case["faults"]:
        steps.append(["call", "t/c09d", "set_fault", arg(site), arg(times)])
        if site == "connect":
            steps.append(["call", "/master", "set_policy", arg("connect_error"), arg(1)])
    steps += [["load", "t/c09hb_canary.c"], ["load", "t/c09hb_faulty.c"], ["call", "t/c09d", "start_callout"], ["backend"]]
    open_ = {}
    for e in case["events"]:
        if e[0] == "tick":
            steps += [["tick", str(e[1])], ["cycle", "2"]]
        elif e[0] == "connect":
            steps += [["connect", "c%d" % e[1], str(e[2])], ["cycle", "2"]]
            open_[e[1]] = True
        elif e[0] == "line" and open_.get(e[1]):
            steps += [["send", "c%d" % e[1], e[2] + "\r\n"], ["cycle", "2"]]
        elif e[0] == "partial" and open_.get(e[1]):
            steps += [["send", "c%d" % e[1], "par"], ["cycle"]]
        elif e[0] == "close" and open_.get(e[1]):
            steps += [["close", "c%d" % e[1]] + (["rst"] if e[2] == "rst" else []), ["cycle", "2"]]
            open_[e[1]] = False
        elif e[0] == "telnet" and open_.get(e[1]):
            data = b"\xff\xfb\x18\xff\xfa\x18\x00vt100\xff\xf0" if e[2] == "ttype" else b"\xff\xfb\x1f\xff\xfa\x1f\x00\x50\x00\x18\xff\xf0"
            steps += [["send", "c%d" % e[1], data], ["cycle", "2"]]
        elif e[0] == "input_to":
            steps += [["call", "t/c09d", "arm_input_to", arg(e[1])]]
        elif e[0] == "move":
            steps += [["call", "t/c09d", "move_into_room", arg(e[1])]]
    # canaries after the history: the connect fault is lifted first so that the canary user can log in
    steps += [["call", "/master", "set_policy", arg("connect_error"), arg(0)], ["call", "t/c09d", "set_fault", arg("connect"), arg(0)],
              ["call", "t/c09d", "set_fault", arg("logon"), arg(0)], ["call", "t/c09d", "set_fault", arg("write_prompt"), arg(0)],
              ["call", "t/c09d", "set_fault", arg("process_input"), arg(0)],
              ["connect", "canary", "0"], ["cycle", "3"], ["send", "canary", "canary\r\n"], ["cycle", "3"],
              ["tick", "1"], ["cycle", "2"], ["tick", "1"], ["cycle", "2"], ["tick", "1"], ["cycle", "2"], ["tick", "1"], ["cycle", "2"],
              ["call", "t/c09hb_canary", "query"], ["call", "t/c09d", "getlog"], ["call", "/master", "verif_errors"]]
    fin = len(steps)
    steps.append(["endbackend"])
    res = w.run(steps)
    info = "case %r" % (case,)
    if res.timed_out:
        ctx.inconclusive["timeout"] += 1
        return None, None
    cr = res.crash()
    if cr:
        return ("crash:" + cr[1][:80], info + "\n" + cr[2][:3000]), None
    br = res.step(fin, "backend_returned")
    if not br or br.get("left") != 0:
        return ("backend-left-early", "backend() returned before the history was over: %r\n%s\n%s" % (br, info, res.stderr[-1500:])), None
    lg = res.step(fin - 2)
    if not lg or lg.get("st") != "val":
        return ("daemon-log-unavailable", "%r\n%s" % (lg, info)), None
    log = [x[1] for x in unjson(lg["v"])[1]]
    fired = [x for x in log if x[0] == "fault"]
    # (2) canaries
    if not any(x[0] == "cmd" and x[2] == "canary" for x in log):
        return ("canary-command-not-served", "the canary user's command was not executed\nlog tail %r\n%s\n%s" % (log[-8:], info, res.stderr[-1200:])), None
    times = sorted({x[2] for x in log if x[0] == "hb" and "canary" in x[1]})
    hb_ticks = [x[2] for x in log if x[0] == "hb" and "canary" in x[1]]
    if len(hb_ticks) < 4 or len(set(hb_ticks[-4:])) < 4:
        return ("canary-heart-beat-stopped", "canary heart beat calls at %r\n%s" % (hb_ticks[-8:], info)), None
    q = res.step(fin - 3)
    if not q or q.get("st") != "val" or unjson(q["v"]) != 1:
        return ("canary-heart-beat-switched-off", "query_heart_beat(canary) = %r\n%s" % (q, info)), None
    nticks = sum(1 for e in case["events"] if e[0] == "tick") + 4
    total = sum(e[1] for e in case["events"] if e[0] == "tick") + 4
    if total >= 3 and not any(x[0] == "co_canary" for x in log):
        return ("canary-call_out-lost", "the canary call_out (delay 3) never fired although %d s passed\nlog %r\n%s" % (total, [x for x in log if x[0].startswith("co_")], info)), None
    if total >= 2 and len([x for x in log if x[0] == "co_faulty"]) != 2:
        return ("call_out-lost-or-repeated-after-error", "the two faulty-site call_outs fired %d times\n%s" % (len([x for x in log if x[0] == "co_faulty"]), info)), None
    # (3) every fired fault was reported
    er = res.step(fin - 1)
    errs = [x for x in unjson(er["v"])[1]] if er and er.get("st") == "val" else []
    reported = " ".join(str(e) for e in errs) + res.stderr
    USER_SITES = ("cmd", "process_input", "logon", "net_dead", "write_prompt", "terminal_type", "window_size", "input_to", "heart_beat", "reset")
    for f in fired:
        if case.get("kind", "error") != "error" and f[1] in USER_SITES:
            continue       # this user-object task did not raise an error: it took its object or its connection away
        if case["handler"] == "fail" and "error in mudlib error handler" in reported:
            continue       # the handler itself failed: the driver reports that failure (with location and trace) instead
        if ("fault in " + f[1]) not in reported and f[1] != "connect":
            return ("error-not-reported:" + f[1], "fault in %s fired but appears neither in the master's error log nor in the debug log\n%s" % (f[1], info)), None
    return None, dict(fired=sorted({f[1] for f in fired}))


class Pool:
    def __init__(self, ctx):
        self.ctx = ctx
        self.w = {}

    def get(self, handler):
        key = "absent" if handler == "absent" else "std"
        if key not in self.w:
            files = {"t/c09d.c": DAEMON, "user.c": USER, "t/c09user2.c": USER, "t/c09room.c": ROOM, "t/c09hb_canary.c": HB.replace("NAME", '"canary"'),
                     "t/c09hb_faulty.c": HB.replace("NAME", '"faulty"')}
            if key == "absent":
                m = open(os.path.join(BASE_MUDLIB, "master.c")).read().replace("mixed error_handler(", "mixed error_handler_absent(")
                files["master.c"] = m
            self.w[key] = Worker(self.ctx.scratch("w" + key), timeout=40, mudlib_files=files, ports=["4000:telnet", "4001:ascii"],
                                 conf={"ResetDuration": "600", "CleanupDuration": "600"})
        return self.w[key]

    def close(self):
        for w in self.w.values():
            w.close()
        self.w = {}


_pools = {}


def check(ctx, case):
    pool = _pools.get(ctx.rundir)
    if pool is None:
        pool = _pools[ctx.rundir] = Pool(ctx)
    f, info = evaluate_case(ctx, pool, case)
    if f:
        ctx.evaluations += 1
        ctx.fail(f[0], case, f[1])
        return
    if info is None:
        ctx.case_done(None, ["not-executed"])
        return
    cl = ["handler:" + case["handler"]] + ["fired:" + s for s in info["fired"]]
    ctx.case_done(runner.khash([case["faults"], case["handler"], [e[0] for e in case["events"]]]) if info["fired"] else None, cl,
                  sample=dict(handler=case["handler"], faults=case["faults"], events=case["events"][:10]))


def shard_main(ctx):
    from hypothesis import given
    n = {"quick": 1500, "thorough": 16000}[ctx.tier]

    @given(cases())
    def test(case):
        check(ctx, case)

    try:
        runner.run_hypothesis(ctx, test, n)
    finally:
        p = _pools.pop(ctx.rundir, None)
        if p:
            p.close()


def replay(ctx, case):
    pool = Pool(ctx)
    try:
        f, _ = evaluate_case(ctx, pool, case)
        return f
    finally:
        pool.close()
