"""C19 - cross-thread notifications are never lost or merged; the queue hands over each message once; stop / join end.

asynccheck (harness/asynccheck.cpp, linked against lib/async and lib/port as built from the working tree) executes
op scripts. Event loop: owned schedules over post / wakeup / wait - every coalescing pattern of posts between two
waits is such a sequence - plus the same posts issued by 1-4 threads released by a barrier, plus a post arriving while
the loop is blocked. Queue: single-thread scripts against an exact ring model for every policy, and producers + one
consumer with seeded yields. Worker and timer life cycles with seeded delays. The same script classes run once more
under ThreadSanitizer. Oracle: multiset of delivered (key, data) equals the multiset posted; exact queue model /
per-producer FIFO and drop accounting; bounded completion of stop / join, no callback after stop; no TSan report."""
import json
import os
import select
import subprocess
from collections import Counter

from hypothesis import strategies as st

from .. import build, runner
from ..worker import _lift_limits

LEVEL = "exploration"
BUILDS = [("asan", ["asynccheck"]), ("tsan", ["asynccheck", "lpcvm"])]      # built by the parent process before the shards start
RULE = ("cases = op scripts of five classes: EL (1-40 ops over post / wakeup / wait(0) / k threads posting n each behind a barrier / post while blocked), "
        "Q1 (capacity 1-8, message size 1-32, every policy, 1-60 enqueue / dequeue / clear / stats / full-empty ops), QB (1-5 writers blocked on a full BLOCK_WRITER queue of capacity 1-6, then drain / clear + drain / clear + a further writer + drain), QT (1-4 producers x 20-400 messages, "
        "capacity 1-16, each policy, seeded yields, one consumer), WK (6 worker procedure kinds x delay before stop 0-20 ms x stop or not x join timeout "
        "{0, 5, 50, 300, infinite}), TM (interval 1-20 ms x run 0-60 ms x 0-3 restarts); both tiers run the threaded classes again under ThreadSanitizer, and DS: the whole driver (lpcvm, TSan build) with its real heart-beat timer thread at a 20 ms "
        "interval - and in console mode the console worker thread - while heart beats run and commands from a connection and the console are served. "
        "non-trivial = >= 2 posts between two waits, or the queue reached full, or join issued within 1 ms of create; distinct = script text")
ASSUMPTIONS = ["completion keys are non-zero 31-bit values and data 31-bit values (key 0 marks a wake-up; the record format carries 32 bits each)",
               "at most 2000 notifications are pending at once (the notification channel is finite; a refused post returns -1 and is not counted as posted)",
               "time bounds are generous (stop/join 5 s, prompt wake-up 1.5 s) so that load cannot produce a false alarm; a case that exceeds the per-case "
               "watchdog of 12 s is a hang"]
NONTRIVIAL_FLOOR = {"quick": 500, "thorough": 10000}


# ------------------------------------------------------------------ generators
@st.composite
def el_case(draw):
    ops = []
    n = draw(st.integers(1, 40))
    pending = 0
    for _ in range(n):
        k = draw(st.integers(0, 9))
        if k <= 3:
            ops.append("P:%d:%d" % (draw(st.integers(1, 2 ** 31 - 1)), draw(st.one_of(st.integers(0, 300), st.integers(0, 2 ** 31 - 1)))))
            pending += 1
        elif k == 4:
            ops.append("W")
        elif k <= 6:
            ops.append("R")
            pending = 0
        elif k == 7:
            kk, nn = draw(st.integers(1, 4)), draw(st.integers(1, 100))
            if pending + kk * nn > 2000:
                continue
            ops.append("T:%d:%d:%d:%d" % (kk, draw(st.integers(1, 2 ** 30)), draw(st.integers(0, 1000)), nn))
            pending += kk * nn
        elif k == 8 and not any(o.startswith("B") for o in ops) and pending == 0 and (not ops or ops[-1] == "R"):
            ops.append("B:%d" % draw(st.sampled_from([0, 1, 5, 20])))
        else:
            ops.append("P:%d:%d" % (draw(st.sampled_from([1, 2, 7, 1000])), draw(st.integers(0, 9))))
            pending += 1
    return dict(kind="EL", line="EL " + " ".join(ops))


@st.composite
def q1_case(draw):
    cap, msz = draw(st.integers(1, 8)), draw(st.integers(1, 32))
    flags = draw(st.sampled_from([0, 1, 2, 4, 5, 6]))
    ops, ring = [], []          # ring: message lengths, exactly as the queue holds them (a single thread must never block itself)
    for _ in range(draw(st.integers(1, 60))):
        k = draw(st.integers(0, 9))
        if k <= 4:
            ln = draw(st.one_of(st.integers(1, msz), st.integers(0, msz + 2)))
            valid = 1 <= ln <= msz
            if valid and len(ring) >= cap and (flags & 2) and not (flags & 1):
                continue            # would wait for a reader that does not exist
            ops.append("E:%d:%d" % (ln, draw(st.integers(0, 200))))
            if valid:
                if len(ring) >= cap:
                    if flags & 1:
                        ring.pop(0); ring.append(ln)
                else:
                    ring.append(ln)
        elif k <= 7:
            bs = draw(st.one_of(st.just(64), st.integers(0, msz)))
            ops.append("D:%d" % bs)
            if ring and ring[0] <= bs:
                ring.pop(0)
        elif k == 8:
            ops.append(draw(st.sampled_from(["S", "F"])))
        else:
            ops.append("X")
            ring = []
    return dict(kind="Q1", line="Q1 %d %d %d " % (cap, msz, flags) + " ".join(ops))


@st.composite
def qt_case(draw):
    return dict(kind="QT", line="QT %d %d %d %d %d" % (draw(st.integers(1, 16)), draw(st.sampled_from([0, 1, 2, 4, 6])), draw(st.integers(1, 4)),
                                                     draw(st.sampled_from([20, 50, 150, 400])), draw(st.integers(0, 10 ** 6))))


@st.composite
def qb_case(draw):
    return dict(kind="QB", line="QB %d %d %d" % (draw(st.integers(1, 6)), draw(st.integers(1, 5)), draw(st.integers(0, 2))))


@st.composite
def wk_case(draw):
    return dict(kind="WK", line="WK %d %d %d %d %d" % (draw(st.sampled_from([0, 1, 2, 3, 4, 4, 5, 5])), draw(st.sampled_from([0, 0, 0, 50, 500, 3000, 20000])), draw(st.integers(0, 1)),
                                                       draw(st.sampled_from([0, 5, 50, 300, -1])), draw(st.integers(0, 10 ** 6))))


@st.composite
def tm_case(draw):
    return dict(kind="TM", line="TM %d %d %d" % (draw(st.sampled_from([1000, 2000, 5000, 20000])), draw(st.sampled_from([0, 1, 5, 20, 60])), draw(st.integers(0, 3))))


def cases():
    return st.one_of(el_case(), el_case(), el_case(), el_case(), q1_case(), q1_case(), q1_case(), qt_case(), qb_case(), wk_case(), tm_case())


# ------------------------------------------------------------------ the checker process
class Checker:
    def __init__(self, flavour="asan"):
        self.exe = build.binary(flavour, "asynccheck")
        self.flavour = flavour
        self.proc = None
        self.stderr_path = None

    def start(self, rundir):
        env = dict(os.environ)
        env["ASAN_OPTIONS"] = "detect_leaks=0:abort_on_error=0"
        env["TSAN_OPTIONS"] = "halt_on_error=0:report_signal_unsafe=0:exitcode=0"
        self.stderr_path = os.path.join(rundir, "asynccheck-%s.stderr" % self.flavour)
        self.errf = open(self.stderr_path, "wb")
        self.proc = subprocess.Popen([self.exe, "12"], stdin=subprocess.PIPE, stdout=subprocess.PIPE, stderr=self.errf, preexec_fn=_lift_limits)

    def run(self, line, rundir, timeout=60):
        if self.proc is None or self.proc.poll() is not None:
            self.start(rundir)
        pos = os.path.getsize(self.stderr_path)
        self.proc.stdin.write(line.encode() + b"\n")
        self.proc.stdin.flush()
        r, _, _ = select.select([self.proc.stdout], [], [], timeout)
        if not r:
            self.proc.kill(); self.proc.wait(); self.proc = None
            return dict(hang=1), ""
        out = self.proc.stdout.readline()
        self.errf.flush()
        err = open(self.stderr_path, "rb").read()[pos:].decode("latin-1")
        if not out:
            code = self.proc.wait(); self.proc = None
            return dict(died=code), err
        try:
            rec = json.loads(out)
        except ValueError:
            return dict(garbled=out[:200].decode("latin-1")), err
        if rec.get("hang"):
            self.proc.wait(); self.proc = None
        return rec, err

    def close(self):
        if self.proc is not None and self.proc.poll() is None:
            try:
                self.proc.stdin.close()
                self.proc.wait(timeout=5)
            except Exception:
                self.proc.kill()
        self.proc = None


# ------------------------------------------------------------------ oracles
def check_el(line, rec):
    posted, wakeups, feats = Counter(), 0, set()
    since_wait = 0
    for op in line.split()[1:]:
        f = op.split(":")
        if f[0] == "P":
            posted[(int(f[1]), int(f[2]))] += 1; since_wait += 1
        elif f[0] == "W":
            wakeups += 1
        elif f[0] == "T":
            k, key, data, n = int(f[1]), int(f[2]), int(f[3]), int(f[4])
            for j in range(k):
                for m in range(n):
                    posted[(key + j, data + m)] += 1
            since_wait += k * n
            feats.add("threads")
        elif f[0] == "B":
            posted[(9, 9)] += 1
            feats.add("blocked-wait")
        elif f[0] == "R":
            if since_wait >= 2:
                feats.add("pile-up")
            since_wait = 0
    if since_wait >= 2:
        feats.add("pile-up")
    got, woke = Counter(), 0
    for w in rec.get("waits", []):
        evs = w["ev"] if isinstance(w, dict) else w
        if isinstance(w, dict):
            if w["blocked_us"] > 1500000:
                return ("wait-not-woken-by-post", "a wait blocked %d us although a completion was posted after a few ms" % w["blocked_us"]), feats
        for key, data, fd in evs:
            if key == 0:
                woke += 1
            else:
                got[(key, data)] += 1
    if got != posted:
        lost = posted - got
        extra = got - posted
        kind = "merged-or-invented" if extra else "lost"
        return ("notifications-%s" % kind, "posted but not delivered: %r\ndelivered but never posted: %r" % (dict(list(lost.items())[:6]), dict(list(extra.items())[:6]))), feats
    if woke > wakeups:
        return ("wakeup-invented", "%d wake-up events for %d wake-ups" % (woke, wakeups)), feats
    return None, feats


def check_q1(line, rec):
    tok = line.split()
    cap, msz, flags = int(tok[1]), int(tok[2]), int(tok[3])
    ring, enq, deq, drop, feats = [], 0, 0, 0, set()
    if not rec.get("created"):
        return ("queue-not-created", "capacity %d message size %d" % (cap, msz)), feats
    for op, r in zip(tok[4:], rec["ops"]):
        f = op.split(":")
        if f[0] == "E":
            ln, tag = int(f[1]), int(f[2])
            if ln < 1 or ln > msz:
                exp = 0
            elif len(ring) >= cap:
                feats.add("full")
                if flags & 1:
                    ring.pop(0); drop += 1
                    ring.append((ln, tag % 256)); enq += 1; exp = 1
                else:
                    exp = 0
            else:
                ring.append((ln, tag % 256)); enq += 1; exp = 1
            if r.get("e") != exp:
                return ("enqueue-result", "%s returned %r, model %d (queue holds %d of %d)" % (op, r, exp, len(ring), cap)), feats
        elif f[0] == "D":
            bs = int(f[1])
            if not ring or ring[0][0] > bs:
                if r.get("d") != 0:
                    return ("dequeue-result", "%s returned %r, model refuses (queue %r)" % (op, r, ring[:2])), feats
            else:
                ln, tag = ring.pop(0); deq += 1
                if r.get("d") != 1 or r.get("len") != ln or r.get("tag") != tag or r.get("good") != 1:
                    return ("dequeue-content", "%s returned %r, model (len %d, tag %d)" % (op, r, ln, tag)), feats
            if r.get("good") == -1:
                return ("dequeue-wrote-past-buffer", "%s: %r" % (op, r)), feats
        elif f[0] == "X":
            ring = []
        elif f[0] == "F":
            if r.get("full") != (1 if len(ring) >= cap else 0) or r.get("empty") != (0 if ring else 1):
                return ("full-empty-wrong", "%r with %d of %d" % (r, len(ring), cap)), feats
        else:
            if (r.get("cur"), r.get("enq"), r.get("deq"), r.get("drop")) != (len(ring), enq, deq, drop):
                return ("stats-wrong", "%r, model cur %d enq %d deq %d drop %d" % (r, len(ring), enq, deq, drop)), feats
    return None, feats


def check_qt(line, rec):
    tok = line.split()
    cap, flags, np_, nm = int(tok[1]), int(tok[2]), int(tok[3]), int(tok[4])
    feats = set()
    if not rec.get("created"):
        return ("queue-not-created", line), feats
    got = rec["got"]
    last = {}
    seen = set()
    for p, m in got:
        if (p, m) in seen:
            return ("message-delivered-twice", "(%d, %d)" % (p, m)), feats
        seen.add((p, m))
        if m <= last.get(p, -1):
            return ("per-producer-order-broken", "producer %d: %d after %d" % (p, m, last[p])), feats
        last[p] = m
    accepted = sum(rec["accepted"])
    if flags & 1:
        if rec["drop"]:
            feats.add("full")
        if accepted - rec["drop"] != len(got) or rec["enq"] != accepted or rec["deq"] != len(got):
            return ("drop-accounting", "accepted %d dropped %d dequeued %d stats %r" % (accepted, rec["drop"], len(got), {k: rec[k] for k in ("enq", "deq", "drop", "cur")})), feats
    else:
        if accepted != len(got):
            return ("accepted-message-lost", "accepted %d, dequeued %d" % (accepted, len(got))), feats
        if flags & 2 and accepted != np_ * nm:
            return ("block-writer-refused", "accepted %d of %d" % (accepted, np_ * nm)), feats
        if accepted < np_ * nm:
            feats.add("full")
    if rec["cur"] != 0:
        return ("queue-not-empty-at-end", "%r" % rec["cur"]), feats
    feats.add("threads")
    return None, feats


def check_qb(line, rec):
    feats = {"full", "threads"}
    if not rec.get("created"):
        return ("queue-not-created", line), feats
    tok = line.split()
    if rec["finished"] < int(tok[2]):
        return ("blocked-writer-never-released", "%d of %s producers were still blocked in enqueue() 3 s after space became available: %r" % (
            int(tok[2]) - rec["finished"], tok[2], rec)), feats
    if rec["got"] != rec["expect"]:
        return ("accepted-message-lost", "%r" % rec), feats
    return None, feats


def check_wk(line, rec):
    tok = line.split()
    kind, delay, stop, join_ms = int(tok[1]), int(tok[2]), int(tok[3]), int(tok[4])
    feats = set()
    if delay <= 1000:
        feats.add("join-right-after-create")
    if not rec.get("created"):
        return ("worker-not-created", line), feats
    ends = kind == 2 or stop                       # the procedure ends by itself or was asked to
    if rec["ran_after_join_us"] > 0:
        return ("worker-ran-after-join-returned", "%r" % rec), feats
    if join_ms < 0:
        if not ends:
            return None, feats                     # (not generated: an infinite join on a worker nobody stops)
        if not rec["joined"] or rec["join_us"] > 5000000:
            return ("join-did-not-complete", "%r" % rec), feats
    else:
        if rec["join_us"] > join_ms * 1000 + 5000000:
            return ("timed-join-overran", "join(%d ms) took %d us: %r" % (join_ms, rec["join_us"], rec)), feats
        if rec["joined"] and rec["state_after"] != 0:
            return ("joined-but-still-running", "%r" % rec), feats
        if not ends and kind != 2 and rec["joined"]:
            return ("join-claims-success-on-live-worker", "%r" % rec), feats
    if not rec["second_join"]:
        return ("final-join-failed", "%r" % rec), feats
    return None, feats


def check_tm(line, rec):
    feats = {"timer"}
    for r in rec.get("rounds", []):
        if r["start"] != 0 or r["stop"] != 0:
            return ("timer-start-stop-failed", "%r" % r), feats
        if r["stop_us"] > 5000000:
            return ("timer-stop-slow", "%r" % r), feats
        if r["after_stop"] or r["late_us"]:
            return ("callback-after-stop-returned", "%r" % r), feats
        if r["active"]:
            return ("timer-active-after-stop", "%r" % r), feats
    return None, feats


CHECKS = {"EL": check_el, "Q1": check_q1, "QT": check_qt, "QB": check_qb, "WK": check_wk, "TM": check_tm}


def sane(case):
    if case["kind"] == "WK":
        tok = case["line"].split()
        if int(tok[4]) < 0 and not (int(tok[1]) == 2 or int(tok[3])):
            return False
    return True


def evaluate_case(ctx, chk, case):
    if not sane(case):
        return None, None
    rec, err = chk.run(case["line"], ctx.scratch())
    if rec.get("hang"):
        return ("hang", "the script did not finish within 12 s: %s" % case["line"][:300]), None
    if "died" in rec or "garbled" in rec:
        return ("checker-died:%s" % (err.split("SUMMARY:")[-1][:80].strip() if "SUMMARY" in err else rec), "%s\n%s" % (case["line"][:300], err[:4000])), None
    if "ERROR: AddressSanitizer" in err or "runtime error" in err:
        return ("sanitizer:" + err.split("SUMMARY:")[-1][:80].strip(), case["line"][:300] + "\n" + err[:4000]), None
    if "WARNING: ThreadSanitizer" in err:
        frames = [l.strip() for l in err.splitlines() if l.strip().startswith("#") and "/lib/" in l]
        where = frames[0].split(" in ")[-1][:80] if frames else "?"
        return ("tsan:" + where, case["line"][:300] + "\n" + err[:5000]), None
    f, feats = CHECKS[case["kind"]](case["line"], rec)
    if f:
        return (f[0], "%s\nscript: %s\nrecord: %s" % (f[1], case["line"][:600], json.dumps(rec)[:1200])), None
    return None, feats


# ------------------------------------------------------------------ driver session under ThreadSanitizer
HB_OBJ = 'int n; void create() { set_heart_beat(1); } void heart_beat() { n++; } int q() { return n; }\n'


def driver_session(ctx, console):
    """the whole driver with its real heart-beat timer thread (20 ms interval) and, in console mode, the console worker thread, under
    ThreadSanitizer: ticks arrive while commands are served. No report may name repository code; the heart beat must have run."""
    from ..worker import Worker
    os.environ["VERIF_REAL_TIMER"] = "1"
    try:
        w = Worker(ctx.scratch("ds-console" if console else "ds-net"), timeout=90, flavour="tsan", console=console,
                   mudlib_files={"t/hb.c": HB_OBJ}, ports=["4000:telnet"])
    finally:
        os.environ.pop("VERIF_REAL_TIMER", None)
    try:
        steps = [["load", "t/hb.c"], ["backend", "console"] if console else ["backend"]]
        for i in range(30):
            steps += [["sleepms", "15"], ["cycle"]]
        steps += [["connect", "u0", "0"], ["cycle", "2"]]
        for i in range(10):
            steps += [["send", "u0", "look %d\r\n" % i], ["sleepms", "10"], ["cycle", "2"]]
            if console:
                steps += [["console", "say %d\n" % i], ["sleepms", "10"], ["cycle", "2"]]
        steps += [["call", "t/hb", "q"]]
        qi = len(steps) - 1
        steps += [["close", "u0"], ["cycle", "2"], ["endbackend"]]
        res = w.run(steps)
    finally:
        w.close()
    name = "driver-session:" + ("console" if console else "network")
    if res.timed_out:
        ctx.inconclusive["driver-session-timeout"] += 1
        return None
    err = res.stderr
    if "WARNING: ThreadSanitizer" in err:
        blocks = err.split("WARNING: ThreadSanitizer")[1:]
        for b in blocks:
            frames = [l.strip() for l in b.splitlines() if l.strip().startswith("#") and ("/src/" in l or "/lib/" in l) and "/verif/" not in l]
            if frames:
                where = frames[0].split(" in ")[-1] if " in " in frames[0] else frames[0]
                return ("tsan:%s:%s" % (name, " ".join(where.split()[:2])[:90]), "WARNING: ThreadSanitizer" + b[:4000])
    cr = res.crash()
    if cr and "ThreadSanitizer" not in cr[2][:200]:
        return ("crash:%s:%s" % (name, cr[1][:60]), cr[2][:3000])
    r = res.step(qi) or {}
    if r.get("st") != "val" or not isinstance(r.get("v"), int) or r["v"] < 3:
        return ("driver-session-no-heart-beat", "%s: heart beats counted: %r (the real timer should have ticked about 40 times)" % (name, r))
    ctx.case_done(name, ["kind:DS", "flavour:tsan", "threads"], sample=name + " heart beats %r" % r.get("v"))
    return None


_chk = {}


def get_checker(ctx, flavour="asan"):
    c = _chk.get((ctx.rundir, flavour))
    if c is None:
        c = Checker(flavour)
        _chk[(ctx.rundir, flavour)] = c
    return c


def close_all(ctx):
    for k in list(_chk):
        if k[0] == ctx.rundir:
            _chk.pop(k).close()


def check(ctx, case, flavour="asan"):
    f, feats = evaluate_case(ctx, get_checker(ctx, flavour), case)
    if f:
        ctx.evaluations += 1
        ctx.fail(f[0], dict(case, flavour=flavour), f[1])
        return
    if feats is None:
        ctx.case_done(None, ["not-executed"])
        return
    nontriv = bool(feats & {"pile-up", "full", "join-right-after-create", "threads", "blocked-wait"})
    ctx.case_done(case["line"] if nontriv else None, ["kind:" + case["kind"], "flavour:" + flavour] + sorted(feats), sample=case["line"][:300])


def shard_main(ctx):
    from hypothesis import given
    n = {"quick": 1500, "thorough": 40000}[ctx.tier]
    tsan_n = {"quick": 40, "thorough": 2500}[ctx.tier]

    @given(cases())
    def test(case):
        check(ctx, case)

    @given(st.one_of(el_case(), qt_case(), qt_case(), wk_case(), tm_case()))
    def test_tsan(case):
        check(ctx, case, "tsan")

    try:
        runner.run_hypothesis(ctx, test, n)
        if not ctx.failures:
            runner.run_hypothesis(ctx, test_tsan, tsan_n)
        # the full driver with its real timer (and console worker) threads under TSan: shards 0 and 1 (quick), 0-7 alternating (thorough)
        if not ctx.failures and ctx.shard < (2 if ctx.tier == "quick" else 8):
            for rep in range(1 if ctx.tier == "quick" else 5):
                f = driver_session(ctx, console=bool(ctx.shard % 2))
                if f:
                    ctx.evaluations += 1
                    ctx.failures.append(dict(sig=f[0], case=dict(kind="DS", console=bool(ctx.shard % 2)), detail=f[1]))
                    break
    finally:
        close_all(ctx)


def replay(ctx, case):
    if case.get("kind") == "DS":
        return driver_session(ctx, case.get("console", False))
    try:
        f, _ = evaluate_case(ctx, get_checker(ctx, case.get("flavour", "asan")), case)
        return f
    finally:
        close_all(ctx)
