"""C12 - buffered commands are served fairly: one per user per cycle, nobody starves.

Connection-slot layouts with gaps, per-user queues of complete lines (one packet or trickled), arrivals in
chosen cycles, users kicked from inside another user's command, handlers that issue command() several
times; real loopback connections through the real backend loop, a cycle marker taken before every cycle.
Oracle: a queue model - in every cycle exactly the users with a complete line waiting execute exactly one
buffered command, in the order sent; command()-issued commands all run at once."""
from hypothesis import strategies as st

from .. import runner
from ..worker import Worker, arg, unjson

LEVEL = "exploration"
RULE = ("cases = 1-10 users connected in order, a subset closed again (gaps in the slot table), then 3-25 cycles with per-cycle arrivals: user u sends "
        "k complete lines (one packet or one line per packet) or a partial line completed later; special commands: 'multi' (handler calls command() three "
        "times), 'kick<j>' (handler destructs user j mid-cycle), 'quit' (the handler destructs its own user object), 'menu' / 'pager' (handler calls get_char(); the key presses and further commands are type-ahead in the same packet; the pager re-arms get_char() from its callback). non-trivial = at least two users have lines waiting in one cycle and the slot table has a "
        "gap; distinct = (layout, arrival pattern) hash")
ASSUMPTIONS = ["bytes are confirmed to have reached the driver-side socket (FIONREAD) before the cycle in which they count as waiting",
               "telnet ports only (the command buffer and turn system of docs/internals/user-command-turn.md); get_char() is driven with type-ahead that is already buffered when the key is asked for, not with bytes arriving while the connection is in single-character mode",
               "lines are short, so one read always takes everything that has arrived"]
NONTRIVIAL_FLOOR = {"quick": 150, "thorough": 3000}

DAEMON = r'''
int mark;
object *users = ({ });
mixed *log = ({ });
int reg(object u) { users += ({ u }); return sizeof(users) - 1; }
void next_mark() { mark++; }
void note(int id, string line, string via) { log += ({ ({ mark, id, line, via }) }); }
mixed *getlog() { return log; }
object user(int i) { return i < sizeof(users) ? users[i] : 0; }
'''
USER = r'''
int id = -1;
int pager;
void create() { seteuid(getuid()); }
void gc_cb(string c) {
  "/t/c12d"->note(id, c, "gc");
  if (pager && c[0] != 'q') get_char("gc_cb"); else pager = 0;
}
void logon() { id = "/t/c12d"->reg(this_object()); enable_commands(); add_action("cmd_any", "", 1); }
int cmd_any(string arg) {
  string v = query_verb();
  "/t/c12d"->note(id, v + (arg ? " " + arg : ""), "cmd");
  if (v == "multi") { command("sub one"); command("sub two"); command("sub three"); }
  if (v == "quit") { destruct(this_object()); return 1; }   // the user ends its own connection from inside its command
  if (v == "menu") get_char("gc_cb");                    // the next buffered input goes to the callback
  if (v == "pager") { pager = 1; get_char("gc_cb"); }    // ... and so does every one after it, until a 'q'
  if (v[0..3] == "kick") { object o = "/t/c12d"->user(to_int(v[4..])); if (o && o != this_object()) destruct(o); }
  return 1;
}
void net_dead() { }
void write_prompt() { }
void catch_tell(string s) { }
'''


@st.composite
def cases(draw):
    n = draw(st.integers(1, 10))
    closed = sorted(set(draw(st.lists(st.integers(0, n - 1), max_size=n // 2))))
    ncyc = draw(st.integers(3, 25))
    cycles = []
    for _ in range(ncyc):
        arrivals = []
        for _ in range(draw(st.integers(0, 4))):
            u = draw(st.integers(0, n - 1))
            k = draw(st.integers(1, 6))
            mode = draw(st.sampled_from(["packet", "packet", "trickle", "partial"]))
            special = draw(st.sampled_from(["", "", "", "", "multi", "kick", "menu", "pager", "quit"]))
            arrivals.append(dict(u=u, k=k, mode=mode, special=special, target=draw(st.integers(0, n - 1))))
        cycles.append(arrivals)
    return dict(n=n, closed=closed, cycles=cycles)


def evaluate_case(ctx, w, case):
    n = case["n"]
    steps = [["load", "t/c12d.c"], ["backend"]]
    for u in range(n):
        steps += [["connect", "u%d" % u, "0"], ["cycle", "2"]]
    for u in case["closed"]:
        steps += [["close", "u%d" % u]]
    steps += [["cycle", "3"]]
    # phase 1: the wire. What each user will be handed (if it lives) is recorded per cycle.
    partial = [""] * n
    charmode = set()       # users that were sent a get_char() conversation: nothing more is sent to them (bytes arriving while the
                           # connection is in single-character mode are not split into lines)
    seq = 0
    arrivals_by_cycle = []
    for ci, arrivals in enumerate(case["cycles"]):
        handed = []
        for a in arrivals:
            u = a["u"]
            if u in case["closed"] or u in charmode:
                continue
            lines = []
            for j in range(a["k"]):
                seq += 1
                if a["special"] == "multi" and j == 0:
                    lines.append("multi m%d" % seq)
                elif a["special"] == "kick" and j == 0:
                    lines.append("kick%d k%d" % (a["target"], seq))
                elif a["special"] == "quit" and j == a["k"] - 1:
                    lines.append("quit q%d" % seq)
                elif a["special"] in ("menu", "pager") and j == 0 and a["mode"] != "partial" and not partial[u]:
                    # the command that asks for a key, the type-ahead that answers it, and ordinary commands behind it: one packet
                    lines.append("%s g%d" % (a["special"], seq))
                    if a["special"] == "pager":
                        lines += ["%s%d" % (ch, seq) for ch in "ABC"[:1 + seq % 3]] + ["q%d" % seq]
                    else:
                        lines.append("x%d" % seq)
                    charmode.add(u)
                else:
                    lines.append("u%dc%d x" % (u, seq))
            if a["mode"] == "partial":
                steps.append(["send", "u%d" % u, "pp_"])        # an unfinished line: no command is waiting yet
                partial[u] += "pp_"
                continue
            wire = list(lines)
            if partial[u]:
                lines[0] = partial[u] + lines[0]
                partial[u] = ""
            if a["mode"] == "packet" or u in charmode:
                steps.append(["send", "u%d" % u, "".join(l + "\r\n" for l in wire)])
            else:
                for l in wire:
                    steps.append(["send", "u%d" % u, l + "\r\n"])
            handed.append((u, lines))
        arrivals_by_cycle.append(handed)
        steps.append(["call", "t/c12d", "next_mark"])
        steps.append(["cycle"])
    steps.append(["call", "t/c12d", "getlog"])
    fin = len(steps) - 1
    steps.append(["endbackend"])
    res = w.run(steps)
    info = "case %r" % (case,)
    if res.timed_out:
        ctx.inconclusive["timeout"] += 1
        return None, None
    cr = res.crash()
    if cr:
        return ("crash:" + cr[1][:70], info + "\n" + cr[2][:2500]), None
    r = res.step(fin)
    if not r or r.get("st") != "val":
        return ("no-log", "%r\n%s" % (res.recs[-3:], info)), None
    log = [x[1] for x in unjson(r["v"])[1]]
    by_mark = {}
    for mark, uid, line, via in log:
        by_mark.setdefault(mark, []).append((uid, line, via))
    # phase 2: the queue model, following the order in which the driver served the users of each cycle
    live = [u not in case["closed"] for u in range(n)]
    queue = [[] for _ in range(n)]
    feats = set()
    for ci, handed in enumerate(arrivals_by_cycle):
        for u, lines in handed:
            if live[u]:
                queue[u] += lines
        waiting = {u for u in range(n) if live[u] and queue[u]}
        got = by_mark.get(ci + 1, [])
        served = set()
        killed_now = set()
        nsubs = {}
        last_multi = None
        for u, line, via in got:
            if via == "gc":
                # an input handed to a get_char() callback is that user's one buffered input of the cycle; the callback sees its first character
                if u in served:
                    return ("two-commands-in-one-cycle", "cycle %d: user %d was served a second buffered input (%r to get_char)\n%s" % (ci + 1, u, line, info)), None
                served.add(u)
                if not live[u] or not queue[u] or not line or not queue[u][0].startswith(line):
                    return ("wrong-order-or-content", "cycle %d: user %d's get_char callback got %r, waiting: %r\n%s" % (ci + 1, u, line, queue[u][:1], info)), None
                queue[u].pop(0)
                feats.add("get_char")
                continue
            if line.startswith("sub "):
                nsubs[u] = nsubs.get(u, 0) + 1
                continue
            if u in served:
                return ("two-commands-in-one-cycle", "cycle %d: user %d executed a second buffered command %r\n%s" % (ci + 1, u, line, info)), None
            served.add(u)
            if not live[u] or not queue[u]:
                return ("unexpected-command", "cycle %d: user %d executed %r with nothing waiting in the model\n%s" % (ci + 1, u, line, info)), None
            if queue[u][0] != line:
                return ("wrong-order-or-content", "cycle %d: user %d executed %r, expected %r\n%s" % (ci + 1, u, line, queue[u][0], info)), None
            queue[u].pop(0)
            if line.startswith("quit"):
                live[u] = False          # gone by its own hand; everybody else with a line waiting is still owed this cycle's turn
                killed_now.add(u)
                feats.add("quit-mid-cycle")
            if line.startswith("kick"):
                t = int(line[4:].split()[0])
                if t != u and t < n and live[t]:
                    live[t] = False
                    killed_now.add(t)
                    feats.add("kick-mid-cycle")
            if line.startswith("multi"):
                feats.add("command()-efun")
                last_multi = u
        for u in waiting:
            if u not in served and u not in killed_now:
                return ("starved", "cycle %d: user %d had %r waiting but executed nothing (served: %r)\n%s" % (ci + 1, u, queue[u][0], sorted(served), info)), None
        for u, line, via in got:
            if line.startswith("multi") and nsubs.get(u, 0) != 3:
                return ("command-efun-limited", "cycle %d: user %d ran 'multi' but %d of its 3 command() calls executed\n%s" % (ci + 1, u, nsubs.get(u, 0), info)), None
        if len(waiting) >= 2:
            feats.add("two-users-waiting")
            if not all(live[u] or u in killed_now for u in range(n)) or case["closed"]:
                feats.add("gap")
    return None, feats


_workers = {}


def get_worker(ctx):
    w = _workers.get(ctx.rundir)
    if w is None:
        w = Worker(ctx.scratch("w"), timeout=30, mudlib_files={"t/c12d.c": DAEMON, "user.c": USER}, ports=["4000:telnet"])
        _workers[ctx.rundir] = w
    return w


def close_workers(ctx):
    w = _workers.pop(ctx.rundir, None)
    if w:
        w.close()


def check(ctx, case):
    f, feats = evaluate_case(ctx, get_worker(ctx), case)
    if f:
        ctx.evaluations += 1
        ctx.fail(f[0], case, f[1])
        return
    if feats is None:
        ctx.case_done(None, ["not-executed"])
        return
    ctx.case_done(runner.khash(case) if "gap" in feats else None, sorted(feats) or ["plain"],
                  sample=dict(users=case["n"], closed=case["closed"], first_cycles=case["cycles"][:3]))


def shard_main(ctx):
    from hypothesis import given
    n = {"quick": 1400, "thorough": 20000}[ctx.tier]

    @given(cases())
    def test(case):
        check(ctx, case)

    try:
        runner.run_hypothesis(ctx, test, n)
    finally:
        close_workers(ctx)


def replay(ctx, case):
    try:
        f, _ = evaluate_case(ctx, get_worker(ctx), case)
        return f
    finally:
        close_workers(ctx)
