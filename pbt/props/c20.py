"""C20 - uid/euid change only as the master allows; without euid no object creation.

Stateful histories over objects living under /adm (root uid), /std (backbone), /u/alice, /u/bob, /open, /nouid
with master policies for valid_seteuid; oracle: a reference model of the uid rules (docs/efuns/seteuid.md,
export_uid.md, docs/applies/master creator_file / valid_seteuid, and the statement)."""
from hypothesis import strategies as st

from .. import runner
from ..worker import Worker, arg, unjson

LEVEL = "exploration"
RULE = ("cases = histories of 4-30 steps: driver-level loads, load/clone by objects (load_object, new, call_other on a path), seteuid(string | 0), "
        "export_uid, destruct, loads of files whose create() itself tries to load_object() / call_other() a further file (with whatever euid creation gave them), changes of the master's valid_seteuid policy (approve all / refuse all / own uid only / root only), over files whose "
        "creator_file is root, backbone, two wizards, open and 'no string'; after every step the (uid, euid) of every live object is compared with a "
        "reference model and the master's apply log is checked. non-trivial = the history has a refused seteuid or an euid-0 creation attempt or an "
        "export_uid; distinct = history hash")
ASSUMPTIONS = ["objects loaded by the driver itself (no current object) get uid = creator_file and euid 0 (src/simulate.c give_uid_to_object)",
               "the model encodes: same-uid rule, AUTO_TRUST_BACKBONE rule, otherwise uid = creator and euid 0"]
NONTRIVIAL_FLOOR = {"quick": 200, "thorough": 3000}

FILES = ["adm/a1", "adm/a2", "std/s1", "std/s2", "u/alice/x1", "u/alice/x2", "u/bob/y1", "open/o1", "nouid/n1"]
BASE = r'''
mixed do_seteuid(mixed s) { return seteuid(s); }
mixed do_export(string target) { object o = find_object(target); if (!o) return -1; return export_uid(o); }
mixed do_load(string path) { object o = load_object(path); return o ? file_name(o) : 0; }
mixed do_clone(string path) { object o = new(path); return o ? file_name(o) : 0; }
mixed do_call_other(string path) { return path->ids(); }
mixed ids() { return ({ getuid(), geteuid(this_object()) }); }
mixed fp_euid() { return geteuid((: ids :)); }
'''
CENSUS = r'''
mixed census() {
  mixed *r = ({ });
  foreach (object o in objects()) {
    string n = file_name(o);
    if (n[0..2] == "/t/" || n == "/master" || n == "/simul_efun" || n == "/census") continue;
    r += ({ ({ n, getuid(o), geteuid(o) }) });
  }
  return r;
}
'''
# objects whose create() itself tries to create another object: at that moment they hold whatever euid creation gave them
CT_FILES = ["std/ct1", "std/ct2", "u/alice/ct1", "u/bob/ct2", "open/ct1", "adm/ct2"]
CT_SRC = {
    "ct1": 'inherit "/t/c20base";\nmixed made;\nvoid create() { string p = "/t/director"->query_ctt(); if (p) made = catch(load_object(p)); }\nmixed query_made() { return made; }\n',
    "ct2": 'inherit "/t/c20base";\nmixed made;\nvoid create() { string p = "/t/director"->query_ctt(); if (p) made = catch(call_other(p, "ids")); }\nmixed query_made() { return made; }\n',
}
UIDS = ["Root", "Backbone", "alice", "bob", "Open", "NONAME", "zed"]


def creator(path):
    parts = [p for p in path.split("/") if p]
    if parts[0] == "adm":
        return "Root"
    if parts[0] == "std":
        return "Backbone"
    if parts[0] == "u":
        return parts[1]
    if parts[0] == "open":
        return "Open"
    if parts[0] == "nouid":
        return "NONAME"
    return "Root"


files = st.sampled_from(FILES)


@st.composite
def histories(draw):
    n = draw(st.integers(4, 30))
    ev = [dict(op="hload", path=draw(files)), dict(op="hload", path=draw(files))]
    for _ in range(n):
        k = draw(st.integers(0, 12))
        if k <= 1:
            ev.append(dict(op="hload", path=draw(files)))
        elif k <= 4:
            ev.append(dict(op="seteuid", actor=draw(st.integers(0, 7)), val=draw(st.one_of(st.just(0), st.sampled_from(UIDS), st.just("OWN")))))
        elif k <= 6:
            ev.append(dict(op=draw(st.sampled_from(["load", "clone", "call_other"])), actor=draw(st.integers(0, 7)), path=draw(files)))
        elif k <= 8:
            ev.append(dict(op="export", actor=draw(st.integers(0, 7)), target=draw(st.integers(0, 7))))
        elif k == 9:
            ev.append(dict(op="policy", val=draw(st.sampled_from(["allow", "deny", "own", "root"]))))
        elif k == 10 and draw(st.booleans()):
            ev.append(dict(op="ctload", actor=draw(st.integers(0, 7)), path=draw(st.sampled_from(CT_FILES)), target=draw(files)))
        elif k == 10:
            ev.append(dict(op="destruct", actor=draw(st.integers(0, 7))))
        else:
            ev.append(dict(op="seteuid", actor=draw(st.integers(0, 7)), val="OWN"))
    return dict(events=ev)


class Model:
    def __init__(self):
        self.obs = {}        # name -> [uid, euid]
        self.order = []      # live object names in creation order (actor indexes refer to this list)
        self.policy = "allow"

    def create(self, name, path, loader):
        """loader: name of the creating object or None (driver)"""
        c = creator(path)
        if loader is None:
            self.obs[name] = [c, 0]
        else:
            luid, leuid = self.obs[loader]
            if luid == c:
                self.obs[name] = [luid, 0]
            elif c == "Backbone":
                self.obs[name] = [leuid, leuid]
            else:
                self.obs[name] = [c, 0]
        if name not in self.order:
            self.order.append(name)

    def valid_seteuid(self, name, val):
        uid = self.obs[name][0]
        return {"allow": True, "deny": False, "own": val == uid, "root": uid == "Root"}[self.policy]


def evaluate_case(ctx, w, case):
    """executes the history step by step (each step needs the previous result to name clones), all in one child"""
    # Because clone names are only known at run time, the history is compiled into steps whose actors are resolved
    # by the LPC census object: actor k = k-th live object in creation order. The harness therefore drives a small
    # LPC "director" that keeps the creation order.
    steps = [["call", "/master", "set_policy", arg("log"), arg(1)], ["load", "census.c"], ["load", "t/director.c"]]
    for e in case["events"]:
        if e["op"] == "hload":
            steps.append(["load", e["path"] + ".c"])
            steps.append(["call", "t/director", "note", arg("/" + e["path"])])
        elif e["op"] == "policy":
            steps.append(["call", "/master", "set_policy", arg("seteuid"), arg(e["val"])])
            steps.append(["call", "t/director", "nop"])
        elif e["op"] == "seteuid":
            v = e["val"]
            steps.append(["call", "t/director", "act_seteuid", arg(e["actor"]), arg(v) if v != 0 else arg(0)])
            steps.append(["call", "t/director", "nop"])
        elif e["op"] in ("load", "clone", "call_other"):
            steps.append(["call", "t/director", "act_create", arg(e["actor"]), arg(e["op"]), arg("/" + e["path"])])
            steps.append(["call", "t/director", "nop"])
        elif e["op"] == "ctload":
            steps.append(["call", "t/director", "set_ctt", arg("/" + e["target"])])
            steps[-1:] = [["call", "t/director", "set_ctt", arg("/" + e["target"])],
                          ["call", "t/director", "act_ctcreate", arg(e["actor"]), arg("/" + e["path"]), arg("/" + e["target"])]]
        elif e["op"] == "export":
            steps.append(["call", "t/director", "act_export", arg(e["actor"]), arg(e["target"])])
            steps.append(["call", "t/director", "nop"])
        elif e["op"] == "destruct":
            steps.append(["call", "t/director", "act_destruct", arg(e["actor"])])
            steps.append(["call", "t/director", "nop"])
        steps.append(["call", "census", "census"])
        steps.append(["call", "/master", "verif_get_log"])
        steps.append(["call", "/master", "verif_clear_log"])
    res = w.run(steps)
    hist = "history %r" % (case["events"],)
    if res.timed_out:
        ctx.inconclusive["timeout"] += 1
        return None, None
    cr = res.crash()
    if cr:
        return ("crash:" + cr[1][:70], hist + "\n" + cr[2][:2500]), None
    m = Model()
    feats = set()
    si = 3
    for ei, e in enumerate(case["events"]):
        r1, r2 = res.step(si), res.step(si + 1)
        census, mlog = res.step(si + 2), res.step(si + 3)
        si += 5
        where = "event %d %r" % (ei, e)
        log = [x[1] for x in unjson(mlog["v"])[1]] if mlog and mlog.get("st") == "val" else []
        seteuid_asked = [l for l in log if l[0] == "valid_seteuid"]
        created_asked = [l for l in log if l[0] == "creator_file"]
        if e["op"] == "hload":
            name = "/" + e["path"]
            if name not in m.obs:
                if not r1 or r1.get("st") != "ok":
                    return ("driver-load-failed", "%s: %r\n%s" % (where, r1, hist)), None
                m.create(name, e["path"], None)
                if not any(l[1] == name or l[1] == name + ".c" or l[1].lstrip("/") == e["path"] for l in created_asked):
                    return ("creator_file-not-consulted", "%s: master log %r\n%s" % (where, log, hist)), None
        elif e["op"] == "policy":
            m.policy = e["val"]
        else:
            live = [n for n in m.order if n in m.obs]
            if not live:
                continue
            actor = live[e["actor"] % len(live)]
            st_ = r1.get("st") if r1 else "missing"
            val = unjson(r1["v"]) if st_ == "val" else None
            if e["op"] == "seteuid":
                v = e["val"]
                if v == "OWN":
                    v = m.obs[actor][0]
                if v == 0:
                    m.obs[actor][1] = 0
                    exp = 1
                    if seteuid_asked:
                        pass    # asking the master for seteuid(0) is harmless
                else:
                    ok = m.valid_seteuid(actor, v)
                    if not any(l[1] == actor and l[2] == v for l in seteuid_asked):
                        return ("valid_seteuid-not-consulted", "%s by %s: master log %r\n%s" % (where, actor, log, hist)), None
                    if ok:
                        m.obs[actor][1] = v
                    else:
                        feats.add("refused-seteuid")
                    exp = 1 if ok else 0
                if st_ != "val" or val != exp:
                    return ("seteuid-result", "%s by %s returned %r (%s), expected %r\n%s" % (where, actor, val, st_, exp, hist)), None
            elif e["op"] in ("load", "clone", "call_other"):
                name = "/" + e["path"]
                exists = name in m.obs
                if m.obs[actor][1] == 0 and (e["op"] == "clone" or not exists):
                    feats.add("euid0-creation-attempt")
                    if st_ != "err":
                        return ("euid0-object-created-something", "%s by %s (euid 0) gave %r\n%s" % (where, actor, r1, hist)), None
                else:
                    if st_ != "val":
                        return ("creation-failed", "%s by %s (uid %r euid %r) gave %r\n%s" % (where, actor, m.obs[actor][0], m.obs[actor][1], r1, hist)), None
                    if e["op"] == "clone":
                        if not exists:
                            m.create(name, e["path"], actor)     # the blueprint is loaded first, by the same actor
                        m.create(val, e["path"], actor)
                    elif not exists:
                        m.create(name, e["path"], actor)
            elif e["op"] == "ctload":
                # the actor loads a file whose create() tries to load / call into a second file
                r = r2 or {}
                st2 = r.get("st")
                name, tname = "/" + e["path"], "/" + e["target"]
                if name in m.obs:
                    pass                                   # already loaded: create() does not run again
                elif m.obs[actor][1] == 0:
                    feats.add("euid0-creation-attempt")
                    if st2 != "err":
                        return ("euid0-object-created-something", "%s by %s (euid 0) gave %r\n%s" % (where, actor, r, hist)), None
                else:
                    if st2 != "val":
                        return ("creation-failed", "%s by %s gave %r\n%s" % (where, actor, r, hist)), None
                    m.create(name, e["path"], actor)
                    if tname not in m.obs:
                        if m.obs[name][1] == 0:
                            feats.add("euid0-creation-attempt")     # from inside create(): must be refused; the census below shows if it was not
                            feats.add("create-time-attempt")
                        else:
                            m.create(tname, e["target"], name)
            elif e["op"] == "export":
                target = live[e["target"] % len(live)]
                feats.add("export_uid")
                if m.obs[actor][1] == 0:
                    if st_ != "err":
                        return ("export-with-euid0-allowed", "%s by %s gave %r\n%s" % (where, actor, r1, hist)), None
                elif m.obs[target][1] != 0:
                    if st_ != "val" or val != 0:
                        return ("export-onto-euid-holder", "%s %s -> %s gave %r, expected 0\n%s" % (where, actor, target, r1, hist)), None
                else:
                    m.obs[target][0] = m.obs[actor][1]
                    if st_ != "val" or val != 1:
                        return ("export-result", "%s %s -> %s gave %r, expected 1\n%s" % (where, actor, target, r1, hist)), None
            elif e["op"] == "destruct":
                del m.obs[actor]
        # census after every event
        if not census or census.get("st") != "val":
            return ("census-failed", "%s: %r\n%s" % (where, census, hist)), None
        got = {x[1][0]: [x[1][1], x[1][2]] for x in unjson(census["v"])[1]}
        if got != m.obs:
            diff = {k: (got.get(k), m.obs.get(k)) for k in set(got) | set(m.obs) if got.get(k) != m.obs.get(k)}
            return ("uid-state-differs:" + e["op"], "%s: (implementation, model) differ for %r\n%s" % (where, diff, hist)), None
    return None, feats


DIRECTOR = r'''
string *order = ({ });
void create() { seteuid(getuid()); }
void note(string n) { if (member_array(n, order) == -1) order += ({ n }); }
void nop() { }
string ctt;
void set_ctt(string p) { ctt = p; }
string query_ctt() { string p = ctt; ctt = 0; return p; }
string *live() { return filter(order, (: find_object($1) :)); }
object actor(int k) { string *l = live(); return sizeof(l) ? find_object(l[k % sizeof(l)]) : 0; }
mixed act_seteuid(int k, mixed v) { object a = actor(k); if (!a) return -5; if (v == "OWN") v = getuid(a); return a->do_seteuid(v); }
mixed act_create(int k, string how, string path) {
  object a = actor(k); mixed r;
  if (!a) return -5;
  if (how == "load") r = a->do_load(path);
  else if (how == "clone") { r = a->do_clone(path); note(path); }
  else { r = a->do_call_other(path); r = path; }
  if (stringp(r)) { if (how != "clone") note(path); else note(r); }
  return r;
}
mixed act_ctcreate(int k, string path, string target) {
  mixed r = act_create(k, "load", path);
  if (find_object(target)) note(target);
  return r;
}
mixed act_export(int k, int t) { object a = actor(k), b = actor(t); if (!a || !b) return -5; return a->do_export(file_name(b)); }
mixed act_destruct(int k) { object a = actor(k); if (a) destruct(a); return 1; }
'''

_workers = {}


def get_worker(ctx):
    w = _workers.get(ctx.rundir)
    if w is None:
        fl = {"t/c20base.c": BASE, "census.c": CENSUS, "t/director.c": DIRECTOR}
        for f in FILES:
            fl[f + ".c"] = 'inherit "/t/c20base";\n'
        for f in CT_FILES:
            fl[f + ".c"] = CT_SRC[f.rsplit("/", 1)[1]]
        w = Worker(ctx.scratch("w"), timeout=20, mudlib_files=fl)
        _workers[ctx.rundir] = w
    return w


def close_workers(ctx):
    w = _workers.pop(ctx.rundir, None)
    if w:
        w.close()


def check(ctx, case):
    f, feats = evaluate_case(ctx, get_worker(ctx), case)
    if f:
        ctx.evaluations += 1
        ctx.fail(f[0], case, f[1])
        return
    if feats is None:
        ctx.case_done(None, ["not-executed"])
        return
    ctx.case_done(runner.khash(case) if feats else None, sorted(feats), sample=case["events"][:12])


def shard_main(ctx):
    from hypothesis import given
    n = {"quick": 1600, "thorough": 30000}[ctx.tier]

    @given(histories())
    def test(case):
        check(ctx, case)

    try:
        runner.run_hypothesis(ctx, test, n)
    finally:
        close_workers(ctx)


def replay(ctx, case):
    try:
        f, _ = evaluate_case(ctx, get_worker(ctx), case)
        return f
    finally:
        close_workers(ctx)
