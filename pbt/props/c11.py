"""C11 - heart_beat runs once per interval per enabled object; faults stay local.

Populations of heart-beat objects with scripts ("on my k-th beat do ...") and top-level actions between
ticks, executed by the real backend loop (scripted ticks). Oracle: invariants over the sequence-numbered
invocation/action log (at most once per tick, nothing after disable/destruct, exact period in error-free
runs, only the failing object is switched off, query_heart_beat agrees)."""
from hypothesis import strategies as st

from .. import runner
from ..worker import Worker, arg, unjson

LEVEL = "exploration"
RULE = ("cases = 1-8 heart-beat objects with intervals 1-4, scripts 'on my k-th beat do set_heart_beat(self|other, 0|n) / destruct(self|other) / "
        "load-and-enable a new object / raise an error / schedule a call_out that raises an error', plus the same actions between ticks; 5-40 ticks through the real backend loop. "
        "non-trivial = an enable / disable / destruct happened *during* a round (classified by list position relative to the running object); "
        "distinct = history hash")
ASSUMPTIONS = ["a global sequence counter in the mudlib orders heart_beat invocations and actions exactly",
               "the first call after enabling with interval n is accepted in the n-th or (n+1)-th following tick",
               "ticks in which any heart_beat raised an error are excluded from the exact-period rule (the statement says so)"]
NONTRIVIAL_FLOOR = {"quick": 200, "thorough": 3000}

NOBJ = 8
SEQ = r'''
int seq;
mixed *alog = ({ });
int next() { return ++seq; }
void note(mixed *x) { alog += ({ x }); }
void boom() { error("call_out fault\n"); }
void boom_later(int n) { call_out("boom", n); }
mixed *actions() { return alog; }
mixed *status() {
  mixed *r = ({ });
  int i;
  for (i = 0; i < 8; i++) {
    object o = find_object("/t/c11_" + i);
    r += ({ o ? query_heart_beat(o) : -1 });
  }
  return ({ r, sizeof(heart_beats()), map(heart_beats(), (: file_name($1) :)), seq });
}
'''
BASE = r'''
int beats;
mixed *log = ({ });
mapping script = ([ ]);
void create() { seteuid(getuid()); }
int shb(int n) { return set_heart_beat(n), query_heart_beat(this_object()); }
mixed act(string kind, int target, int n) {
  int s0 = "/t/c11seq"->next();
  mixed res = 0;
  object o;
  switch (kind) {
  case "shb":
    o = load_object("/t/c11_" + target);
    res = o->shb(n);
    break;
  case "destruct":
    o = find_object("/t/c11_" + target);
    res = o ? 1 : 0;
    // noted first: a self-destructed object cannot call out any more
    "/t/c11seq"->note(({ kind, file_name(this_object()), target, n, s0, "/t/c11seq"->next(), res }));
    if (o) destruct(o);
    return res;
  case "error":
    "/t/c11seq"->note(({ kind, file_name(this_object()), target, n, s0, "/t/c11seq"->next(), 0 }));
    error("heart beat fault\n");
  case "cofault":
    // a fault that is nobody's heart beat: a call_out (of this object, or of the daemon, which never has a heart beat) raises an error
    // in one of the next ticks, after that tick's heart beats have run
    if (target % 2) call_out("boom", n); else "/t/c11seq"->boom_later(n);
    break;
  }
  "/t/c11seq"->note(({ kind, file_name(this_object()), target, n, s0, "/t/c11seq"->next(), res }));
  return res;
}
void boom() { error("call_out fault\n"); }
void add_script(int beat, string kind, int target, int n) {
  if (!script[beat]) script[beat] = ({ });
  script[beat] += ({ ({ kind, target, n }) });
}
void heart_beat() {
  mixed *acts;
  int i;
  beats++;
  "/t/c11seq"->note(({ "beat", file_name(this_object()), beats, time(), "/t/c11seq"->next(), 0, 0 }));
  acts = script[beats];
  if (acts) for (i = 0; i < sizeof(acts) && this_object(); i++) act(acts[i][0], acts[i][1], acts[i][2]);   // a self-destructed object stops acting
}
'''


@st.composite
def histories(draw):
    nobj = draw(st.integers(1, NOBJ))
    events = []
    for k in range(nobj):
        if draw(st.integers(0, 3)) > 0:
            events.append(dict(ev="act", actor=k, kind="shb", target=k, n=draw(st.sampled_from([1, 1, 2, 3, 4]))))
    nscripts = draw(st.integers(0, 6))
    for _ in range(nscripts):
        kind = draw(st.sampled_from(["shb", "shb", "shb", "destruct", "error", "cofault"]))
        events.append(dict(ev="script", actor=draw(st.integers(0, nobj - 1)), beat=draw(st.integers(1, 5)), kind=kind,
                           target=draw(st.integers(0, NOBJ - 1)) if kind == "shb" else draw(st.integers(0, nobj - 1)),
                           n=draw(st.sampled_from([0, 0, 1, 1, 2, 3, 4]))))
    nticks = draw(st.integers(5, 40))
    for _ in range(nticks):
        events.append(dict(ev="tick"))
        if draw(st.integers(0, 5)) == 0:
            kind = draw(st.sampled_from(["shb", "shb", "destruct", "cofault"]))
            events.append(dict(ev="act", actor=draw(st.integers(0, nobj - 1)), kind=kind, target=draw(st.integers(0, NOBJ - 1)),
                               n=draw(st.sampled_from([0, 1, 2, 3, 4]))))
    return dict(nobj=nobj, events=events)


def evaluate_case(ctx, w, case):
    steps = [["load", "t/c11seq.c"]] + [["load", "t/c11_%d.c" % k] for k in range(case["nobj"])] + [["backend"]]
    tick_steps = []
    for e in case["events"]:
        if e["ev"] == "script":
            steps.append(["call", "t/c11_%d" % e["actor"], "add_script", arg(e["beat"]), arg(e["kind"]), arg(e["target"]), arg(e["n"])])
        elif e["ev"] == "act":
            steps.append(["call", "t/c11_%d" % e["actor"], "act", arg(e["kind"]), arg(e["target"]), arg(e["n"])])
        else:
            steps.append(["call", "t/c11seq", "next"])
            steps.append(["tick"]); steps.append(["cycle"])
            steps.append(["call", "t/c11seq", "status"])
            tick_steps.append(len(steps) - 1)
    steps.append(["call", "t/c11seq", "actions"])
    fin = len(steps) - 1
    steps.append(["endbackend"])
    res = w.run(steps)
    hist = "history %r" % (case,)
    if res.timed_out:
        ctx.inconclusive["timeout"] += 1
        return None, None
    cr = res.crash()
    if cr:
        return ("crash:" + cr[1][:70], hist + "\n" + cr[2][:2500]), None
    r = res.step(fin)
    if not r or r.get("st") != "val":
        return ("no-action-log", hist + "\n%r" % (res.recs[-4:],)), None
    alog = [x[1] for x in unjson(r["v"])[1]]
    for a in alog:
        a[1] = a[1].lstrip("/")
    # tick boundaries by sequence number: the harness takes a sequence number right before every tick
    tick_seq = []
    for ts in tick_steps:
        rr = res.step(ts - 3)
        tick_seq.append(unjson(rr["v"]) if rr and rr.get("st") == "val" else None)
    status = []
    for ts in tick_steps:
        rr = res.step(ts)
        status.append(unjson(rr["v"])[1] if rr and rr.get("st") == "val" else None)

    def tick_of(seq):
        """number of ticks whose round started before this sequence number (0 = before the first tick)"""
        n = 0
        for s in tick_seq:
            if s is not None and s < seq:
                n += 1
        return n

    # per object: events in sequence order
    enabled = {}          # name -> (interval, enable_seq, enable_tickpos) or None
    calls = {}            # name -> list of (seq, tick)
    error_ticks = set()
    live = set("t/c11_%d" % k for k in range(case["nobj"]))
    dead_at = {}
    timeline = {}         # name -> list of (seq, kind, n)
    for a in sorted(alog, key=lambda x: x[4]):
        kind = a[0]
        if kind == "beat":
            name, seq = a[1], a[4]
            t = tick_of(seq)
            calls.setdefault(name, []).append((seq, t))
            timeline.setdefault(name, []).append((seq, "beat", t))
        elif kind == "error":
            error_ticks.add(tick_of(a[4]))
            timeline.setdefault(a[1], []).append((a[5], "error", tick_of(a[4])))
        elif kind == "shb":
            tgt = "t/c11_%d" % a[2]
            pos = tick_of(a[5])
            in_round = pos > 0 and any(b[0] == "beat" and b[4] < a[4] and tick_of(b[4]) == pos for b in alog)
            timeline.setdefault(tgt, []).append((a[5], "shb", a[3], pos, a[6], in_round))
        elif kind == "destruct":
            tgt = "t/c11_%d" % a[2]
            if a[6]:
                timeline.setdefault(tgt, []).append((a[5], "destruct", 0, tick_of(a[5])))
    nticks = len(tick_seq)
    classes = set()
    for name, tl in timeline.items():
        tl.sort(key=lambda x: x[0])
        cur = None            # (interval, since_tickpos, in_round) when enabled
        last_call_tick = None
        first_pending = None
        seen_tick = set()
        for ev in tl:
            if ev[1] == "beat":
                t = ev[2]
                # (a) at most once per tick
                if t in seen_tick:
                    return ("called-twice-in-one-tick", "%s was called twice in tick %d\n%s\nlog %r" % (name, t, hist, alog)), None
                seen_tick.add(t)
                # (b) never while disabled / destructed
                if cur is None:
                    return ("called-while-disabled", "%s was called in tick %d (seq %d) although its heart beat was off or it was destructed\n%s\nlog %r" % (name, t, ev[0], hist, alog)), None
                n, since, in_round = cur[0], cur[1], cur[2]
                clean = not any(x in error_ticks for x in range((last_call_tick if last_call_tick is not None else since) + 1, t + 1))
                if clean:
                    if last_call_tick is None:
                        # set during a round: the target may still be visited (and counted down) in that same round
                        if not (since + n - (1 if in_round else 0) <= t <= since + n + 1):
                            return ("first-beat-off-schedule", "%s enabled with interval %d at tick position %d was first called in tick %d\n%s\nlog %r" % (name, n, since, t, hist, alog)), None
                    elif t - last_call_tick != n:
                        return ("period-wrong", "%s (interval %d) called in ticks %d and %d with no error in between\n%s\nlog %r" % (name, n, last_call_tick, t, hist, alog)), None
                last_call_tick = t
            elif ev[1] == "shb":
                n, pos, result = ev[2], ev[3], ev[4]
                if n > 0:
                    cur = (n, pos, ev[5])
                    last_call_tick = None
                else:
                    cur = None
            elif ev[1] == "destruct":
                cur = None
                dead_at[name] = ev[0]
            elif ev[1] == "error":
                # (d) the failing object is switched off
                cur = None
        # missing calls: while enabled in an error-free stretch the object must be called every n ticks up to the end
        if cur is not None:
            n, since = cur[0], cur[1]
            start = last_call_tick if last_call_tick is not None else since
            horizon = start + n + (1 if last_call_tick is None else 0)
            if horizon < nticks and not any(x in error_ticks for x in range(start + 1, horizon + 2)):
                return ("beat-missing", "%s (interval %d) was last called/enabled at tick position %d but not called by tick %d of %d\n%s\nlog %r" % (name, n, start, horizon, nticks, hist, alog)), None
    # (e) query_heart_beat agrees after every tick; (d) only failing objects are off
    state = {}
    for name, tl in timeline.items():
        for ev in tl:
            pass
    for ti, stt in enumerate(status):
        if stt is None:
            continue
        q = stt[0][1]
        # recompute the model's enabled interval at the end of tick ti+1
        end_seq = stt[3] + 1      # the sequence counter at the moment the status was taken
        for k in range(NOBJ):
            name = "t/c11_%d" % k
            cur = -1 if k >= case["nobj"] else 0
            for ev in timeline.get(name, []):
                if ev[0] >= end_seq:
                    break
                if ev[1] == "shb":
                    cur = ev[2] if ev[2] > 0 else 0
                    if cur == 0 and ev[2] < 0:
                        cur = 0
                elif ev[1] == "destruct":
                    cur = -1
                elif ev[1] == "error":
                    cur = 0
            if k >= case["nobj"] and not any(ev[1] == "shb" for ev in timeline.get(name, []) if ev[0] < end_seq):
                cur = -1
            if q[k] != cur:
                return ("query-disagrees", "after tick %d query_heart_beat(%s) = %r, model %r (status seq %r, timeline %r)\n%s\nlog %r" % (ti + 1, name, q[k], cur, stt[3], timeline.get(name), hist, alog)), None
    # classification: actions that happened during a round
    for a in alog:
        if a[0] in ("shb", "destruct") and any(b[0] == "beat" and b[1] == a[1] and b[4] < a[4] and tick_of(b[4]) == tick_of(a[4]) and tick_of(a[4]) > 0 for b in alog):
            classes.add("in-round:" + a[0] + (":self" if a[1] == "t/c11_%d" % a[2] else ":other"))
    if error_ticks:
        classes.add("error-in-round")
    if any(a[0] == "cofault" for a in alog):
        classes.add("call_out-fault")
    return None, classes


_workers = {}


def get_worker(ctx):
    w = _workers.get(ctx.rundir)
    if w is None:
        files = {"t/c11base.c": BASE, "t/c11seq.c": SEQ}
        for k in range(NOBJ):
            files["t/c11_%d.c" % k] = 'inherit "/t/c11base";\n'
        w = Worker(ctx.scratch("w"), timeout=20, mudlib_files=files)
        _workers[ctx.rundir] = w
    return w


def close_workers(ctx):
    w = _workers.pop(ctx.rundir, None)
    if w:
        w.close()


def check(ctx, case):
    f, classes = evaluate_case(ctx, get_worker(ctx), case)
    if f:
        ctx.evaluations += 1
        ctx.fail(f[0], case, f[1])
        return
    if classes is None:
        ctx.case_done(None, ["not-executed"])
        return
    nt = any(c.startswith("in-round") for c in classes)
    ctx.case_done(runner.khash(case) if nt else None, sorted(classes), sample=case["events"][:14])


def shard_main(ctx):
    from hypothesis import given
    n = {"quick": 1400, "thorough": 25000}[ctx.tier]

    @given(histories())
    def test(case):
        check(ctx, case)

    try:
        runner.run_hypothesis(ctx, test, n)
    finally:
        close_workers(ctx)


def replay(ctx, case):
    try:
        f, _ = evaluate_case(ctx, get_worker(ctx), case)
        return f
    finally:
        close_workers(ctx)
