"""C07 - calls reach the right function and respect visibility, whatever came before.

Inheritance graphs of 1-5 programs with function/inherit modifiers; call histories from several origins
(call_other from another object, driver apply, call_out through the real backend, local call, function
pointer, function_exists). Oracles: history independence (each call's outcome equals the same call made
first in a fresh driver), visibility (static/private/protected never answer another object's call_other;
driver-made and local calls do run them) and resolution against a Python resolver where unambiguous."""
from hypothesis import strategies as st

from .. import runner
from ..worker import Worker, arg, unjson

LEVEL = "exploration"
RULE = ("cases = inheritance graphs (1-5 programs, 0-2 parents each, inherit modifiers none/private/static, functions f0..f4 with modifiers "
        "none/static/private/protected/varargs, every function returns 'program:function:<its own program's global>') x histories of 5-40 calls "
        "over origins {call_other from another object (also in the array form, behind other elements), driver apply, call_out via backend tick, local wrapper, function pointer, function_exists}, "
        "including refused ones. non-trivial = a refused call followed later by an allowed-origin call to the same (object, name), or one name "
        "called through two objects of an inheritance chain; distinct = (graph, history) hash")
ASSUMPTIONS = ["resolution/visibility expectations are only asserted where the Python resolver finds exactly one candidate and no 'private' "
               "(function or inherit) hides it from the object called; everything else is covered by history independence alone",
               "the variable part of the tag proves that the callee ran with its own program's variable offset"]
NONTRIVIAL_FLOOR = {"quick": 150, "thorough": 2000}

NF = 5
FMODS = ["", "", "", "static ", "private ", "protected ", "varargs "]
IMODS = ["", "", "", "private ", "static "]
ORIGINS = ["call_other", "call_other_lit", "call_other_arr", "driver", "call_out", "call_out_lit", "local", "fp", "fexists"]

COMMON = r'''
string who = WHO;
void create() { seteuid(getuid()); }
void sched(string fn) { call_out(fn, 1); }
void sched_lit(int k) { switch (k) { case 0: call_out("f0", 1); break; case 1: call_out("f1", 1); break; case 2: call_out("f2", 1); break; case 3: call_out("f3", 1); break; default: call_out("f4", 1); } }
mixed note(string t) { "/t/c07log"->add(t); return t; }
'''
LOGD = 'string *l = ({ });\nvoid add(string t) { l += ({ t }); }\nstring *take() { string *r = l; l = ({ }); return r; }\n'
CALLER = r'''
void create() { seteuid(getuid()); }
mixed co(string ob, string fn) { return call_other(ob, fn); }
// the same with literal names: literals are shared strings, as in real mudlib code (the apply cache is keyed by the string pointer)
mixed co_lit(string ob, int k) { switch (k) { case 0: return call_other(ob, "f0"); case 1: return call_other(ob, "f1"); case 2: return call_other(ob, "f2"); case 3: return call_other(ob, "f3"); } return call_other(ob, "f4"); }
// the array form: one efun call goes through every element; the result of the last element is what the case looks at
mixed co_arr(string obs, string fn) { mixed *r = call_other(map(explode(obs, ","), (: load_object :)), fn); return r[<1]; }
mixed fe(string ob, string fn) { return function_exists(fn, load_object(ob)); }
'''


@st.composite
def graphs(draw):
    n = draw(st.integers(1, 5))
    progs = []
    for i in range(n):
        parents = []
        if i > 0:
            for j in draw(st.lists(st.integers(0, i - 1), max_size=2, unique=True)):
                parents.append([j, draw(st.sampled_from(IMODS))])
        funcs = {}
        for k in range(NF):
            if draw(st.integers(0, 2)) > 0:
                funcs[str(k)] = draw(st.sampled_from(FMODS))
        progs.append(dict(parents=parents, funcs=funcs))
    return progs


@st.composite
def cases(draw):
    g = draw(graphs())
    nc = draw(st.integers(5, 40))
    calls = [dict(ob=draw(st.integers(0, len(g) - 1)), fn=draw(st.integers(0, NF - 1)), origin=draw(st.sampled_from(ORIGINS))) for _ in range(nc)]
    for c in calls:
        if c["origin"] == "call_other_arr":
            # the elements in front of the one looked at: other programs of the graph, or the log daemon (which has no f<k> at all)
            c["pre"] = draw(st.lists(st.integers(-1, len(g) - 1), min_size=1, max_size=3))
    # the same (object, name) is often called from a second kind of caller as well: what a driver apply runs tells which definition
    # is the most derived one, and a call_other has to agree with that definition's visibility
    for c in list(calls):
        if draw(st.integers(0, 2)) == 0:
            calls.insert(draw(st.integers(0, len(calls))), dict(ob=c["ob"], fn=c["fn"], origin=draw(st.sampled_from(["driver", "call_other", "local", "call_other_lit"]))))
    return dict(graph=g, calls=calls[:60])


def resolve(g, i, k, seen=None):
    """returns ("none",) | ("amb",) | ("hidden",) | ("ok", definer, flags) for function fk called by name on program i"""
    p = g[i]
    k = str(k)
    if k in p["funcs"]:
        return ("ok", i, {p["funcs"][k].strip()} - {""})
    cands = []
    for j, imod in p["parents"]:
        r = resolve(g, j, k)
        if r[0] == "amb":
            return ("amb",)
        if r[0] == "hidden":
            cands.append(("hidden",))
        elif r[0] == "ok":
            if "private" in r[2] or imod.strip() == "private":
                cands.append(("hidden",))
            else:
                cands.append(("ok", r[1], r[2] | ({imod.strip()} - {""})))
    oks = {c[1] for c in cands if c[0] == "ok"}
    if len(oks) > 1:
        return ("amb",)
    if any(c[0] == "hidden" for c in cands):
        return ("hidden",) if not oks else ("amb",)
    okc = [c for c in cands if c[0] == "ok"]
    if okc:
        # the same definer reached through paths with different modifiers (diamond): which path wins is not specified
        if any(c[2] != okc[0][2] for c in okc):
            return ("amb",)
        return okc[0]
    return ("none",)


def path_candidates(g, i, k):
    """for a name that program i does not define itself: one entry per inherit statement through which exactly one definition arrives,
    (definer, flags with the inherit statement's modifier); None when any path is itself unclear"""
    p = g[i]
    k = str(k)
    if k in p["funcs"]:
        return None
    out = []
    for j, imod in p["parents"]:
        r = resolve(g, j, k)
        if r[0] == "none":
            continue
        if r[0] != "ok" or "private" in r[2] or imod.strip() == "private":
            return None
        out.append((r[1], r[2] | ({imod.strip()} - {""})))
    if len({d for d, _ in out}) != len(out) or len(out) < 2:
        return None
    return out


def render(g):
    files = {"t/c07log.c": LOGD, "t/c07caller.c": CALLER}
    for i, p in enumerate(g):
        src = ""
        for j, imod in p["parents"]:
            src += '%sinherit "/t/p%d";\n' % (imod, j)
        src += COMMON.replace("WHO", '"p%d"' % i)
        for k in range(NF):
            if str(k) in p["funcs"]:
                src += '%smixed f%d() { return note("p%d:f%d:" + who); }\n' % (p["funcs"][str(k)], k, i, k)
        # wrappers only where the name certainly resolves for code inside this program
        for k in range(NF):
            r = resolve(g, i, k)
            if r[0] == "ok":
                src += "mixed w_local_f%d() { return f%d(); }\nmixed w_fp_f%d() { return evaluate((: f%d :)); }\n" % (k, k, k, k)
        files["t/p%d.c" % i] = src
    return files


def call_steps(c):
    ob = "t/p%d" % c["ob"]
    fn = "f%d" % c["fn"]
    o = c["origin"]
    if o == "call_other":
        return [["call", "t/c07caller", "co", arg("/" + ob), arg(fn)]]
    if o == "call_other_arr":
        names = ["/t/c07log" if j < 0 else "/t/p%d" % j for j in c["pre"]] + ["/" + ob]
        return [["call", "t/c07caller", "co_arr", arg(",".join(names)), arg(fn)]]
    if o == "call_other_lit":
        return [["call", "t/c07caller", "co_lit", arg("/" + ob), arg(c["fn"])]]
    if o == "call_out_lit":
        return [["call", "t/c07log", "take"], ["call", ob, "sched_lit", arg(c["fn"])], ["tick"], ["cycle"], ["call", "t/c07log", "take"]]
    if o == "fexists":
        return [["call", "t/c07caller", "fe", arg("/" + ob), arg(fn)]]
    if o == "driver":
        return [["call", ob, fn]]
    if o == "local":
        return [["call", ob, "w_local_" + fn]]
    if o == "fp":
        return [["call", ob, "w_fp_" + fn]]
    return [["call", "t/c07log", "take"], ["call", ob, "sched", arg(fn)], ["tick"], ["cycle"], ["call", "t/c07log", "take"]]


def outcome(res, base, c):
    """normalised outcome of one call from the records starting at step index base"""
    n = len(call_steps(c))
    r = res.step(base + n - 1)
    if r is None:
        return ("missing",)
    if r.get("st") == "val":
        return ("val", repr(unjson(r["v"])))
    if r.get("st") == "err":
        return ("err", r.get("msg", "")[:60])
    return (r.get("st"),)


def run_history(w, g, calls):
    steps = [["load", "t/c07log.c"], ["load", "t/c07caller.c"]] + [["load", "t/p%d.c" % i] for i in range(len(g))] + [["backend"]]
    bases = []
    for c in calls:
        bases.append(len(steps))
        steps += call_steps(c)
    steps.append(["endbackend"])
    res = w.run(steps)
    return res, bases


def evaluate_case(ctx, w, case):
    g, calls = case["graph"], case["calls"]
    for path, text in render(g).items():
        w.write(path, text)
    res, bases = run_history(w, g, calls)
    info = "graph %r\ncalls %r" % (g, calls)
    if res.timed_out:
        ctx.inconclusive["timeout"] += 1
        return None, None
    cr = res.crash()
    if cr:
        return ("crash:" + cr[1][:70], info + "\n" + cr[2][:2500]), None
    for i in range(len(g)):
        ld = res.step(2 + i)
        if not ld or ld.get("st") != "ok":
            ctx.classes["graph-rejected-by-compiler"] += 1
            return None, None
    outs = [outcome(res, b, c) for b, c in zip(bases, calls)]
    feats = set()
    # oracle 1: history independence
    fresh = {}
    for c, o in zip(calls, outs):
        key = (c["ob"], c["fn"], c["origin"], tuple(c.get("pre", ())))
        if key not in fresh:
            r2, b2 = run_history(w, g, [c])
            if r2.timed_out or r2.crash():
                ctx.inconclusive["fresh-run-failed"] += 1
                return None, None
            fresh[key] = outcome(r2, b2[0], c)
        if fresh[key] != o:
            return ("history-dependent:%s-after-%s" % (c["origin"], ",".join(sorted({d["origin"] for d in calls[:calls.index(c)] if d["ob"] == c["ob"] and d["fn"] == c["fn"]}))),
                    "call %r gave %r in the history but %r as the first call of a fresh driver\n%s\nsources:\n%s" % (c, o, fresh[key], info, render(g)["t/p%d.c" % c["ob"]])), None
    # oracles 2 and 3: visibility and resolution where the resolver is certain
    for c, o in zip(calls, outs):
        r = resolve(g, c["ob"], c["fn"])
        if r[0] != "ok":
            continue
        tag = "p%d:f%d:p%d" % (r[1], c["fn"], r[1])
        hidden = bool(r[2] & {"static", "private", "protected"})
        orig = c["origin"]
        if orig in ("call_other", "call_other_lit", "call_other_arr"):
            if hidden:
                feats.add("refused")
                if o[0] == "val" and o[1] == repr(tag):
                    return ("hidden-function-ran-for-call_other", "%r returned %r although it is %r\n%s" % (c, o, sorted(r[2]), info)), None
            elif o != ("val", repr(tag)):
                return ("wrong-resolution:" + orig, "%r gave %r, expected %r\n%s" % (c, o, tag, info)), None
        elif orig in ("driver", "local", "fp"):
            if o != ("val", repr(tag)):
                return ("wrong-resolution:" + orig, "%r gave %r, expected %r (flags %r)\n%s\n%s" % (c, o, tag, sorted(r[2]), info, render(g)["t/p%d.c" % c["ob"]])), None
        elif orig in ("call_out", "call_out_lit"):
            if o != ("val", repr(("a", [tag]))):
                return ("wrong-resolution:" + orig, "%r logged %r, expected [%r] (flags %r)\n%s" % (c, o, tag, sorted(r[2]), info)), None
    # oracle 4: a name that arrives through several inherit statements from different definers. Which definer is the most derived one is
    # read off a driver / local / function-pointer call of the same (object, name); another object's call_other must then agree with the
    # visibility of exactly that definition (its own modifiers plus the modifier of the inherit statement it came through).
    for c, o in zip(calls, outs):
        if c["origin"] not in ("call_other", "call_other_lit", "call_other_arr"):
            continue
        cands = path_candidates(g, c["ob"], c["fn"])
        if not cands:
            continue
        winners = set()
        for d, od in zip(calls, outs):
            if d["ob"] == c["ob"] and d["fn"] == c["fn"] and d["origin"] in ("driver", "local", "fp") and od[0] == "val":
                for definer, flags in cands:
                    if od[1] == repr("p%d:f%d:p%d" % (definer, c["fn"], definer)):
                        winners.add((definer, frozenset(flags)))
        if len(winners) != 1:
            continue
        definer, flags = next(iter(winners))
        tag = "p%d:f%d:p%d" % (definer, c["fn"], definer)
        feats.add("two-definers")
        if flags & {"static", "private", "protected"}:
            feats.add("refused")
            if o[0] == "val" and o[1] == repr(tag):
                return ("hidden-function-ran-for-call_other", "%r returned %r; the definition that driver and local calls run is p%d's, which is %r for this object\n%s\n%s" % (
                    c, o, definer, sorted(flags), info, render(g)["t/p%d.c" % c["ob"]])), None
        elif o != ("val", repr(tag)):
            return ("wrong-resolution:" + c["origin"], "%r gave %r, but driver and local calls run %r, which is visible\n%s\n%s" % (c, o, tag, info, render(g)["t/p%d.c" % c["ob"]])), None
    # non-trivial rule
    nt = False
    for i, c in enumerate(calls):
        r = resolve(g, c["ob"], c["fn"])
        if c["origin"] in ("call_other", "call_other_lit", "call_other_arr") and r[0] == "ok" and r[2] & {"static", "private", "protected"}:
            if any(d["ob"] == c["ob"] and d["fn"] == c["fn"] and d["origin"] in ("driver", "call_out", "call_out_lit", "local", "fp") for d in calls[i + 1:]):
                nt = True
        if any(d["fn"] == c["fn"] and d["ob"] != c["ob"] for d in calls[i + 1:]):
            if len(g) > 1:
                nt = True
    return None, (nt, feats)


_workers = {}


def get_worker(ctx):
    w = _workers.get(ctx.rundir)
    if w is None:
        w = Worker(ctx.scratch("w"), timeout=20)
        _workers[ctx.rundir] = w
    return w


def close_workers(ctx):
    w = _workers.pop(ctx.rundir, None)
    if w:
        w.close()


def check(ctx, case):
    f, info = evaluate_case(ctx, get_worker(ctx), case)
    if f:
        ctx.evaluations += 1
        ctx.fail(f[0], case, f[1])
        return
    if info is None:
        ctx.case_done(None, ["not-executed"])
        return
    nt, feats = info
    cl = sorted(feats) + ["programs:%d" % len(case["graph"])] + sorted({"origin:" + c["origin"] for c in case["calls"]})
    ctx.case_done(runner.khash(case) if nt else None, cl, sample=dict(graph=case["graph"], calls=case["calls"][:8]))


def shard_main(ctx):
    from hypothesis import given
    n = {"quick": 150, "thorough": 3500}[ctx.tier]

    @given(cases())
    def test(case):
        check(ctx, case)

    try:
        runner.run_hypothesis(ctx, test, n)
    finally:
        close_workers(ctx)


def replay(ctx, case):
    try:
        f, _ = evaluate_case(ctx, get_worker(ctx), case)
        return f
    finally:
        close_workers(ctx)
