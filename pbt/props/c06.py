"""C06 - reference counts are exact: no leaks, nothing freed while referenced.

Scenario = a history of holder operations interpreted by one LPC program: values of every refcounted type
are made, handed to holders (global slot, nested container, mapping value and key, class member, pending
call_out argument, call_out function pointer, bound function argument, add_action callback, variable of
another object, cyclic container, n-fold sharing with n around 255 / 65535 / 65536), read back through each
holder after others were released, released in a generated order, by explicit release, by destructing the
holding object or by an evaluation that ends in an error (caught, uncaught, or injected at the k-th
instruction). A second layer loads, runs and destructs generated whole programs (C03's grammar).
Oracle: (a) the scenario runs three times in one driver, each followed by clean-up; the driver's live-value
statistics and the sanitizer's live heap bytes after repetition 3 equal those after repetition 2;
(b) every read through a remaining holder yields the value's tag; (c) no sanitizer report."""
from hypothesis import strategies as st

from .. import runner
from ..worker import Worker, arg, unjson

LEVEL = "exploration"
RULE = ("cases = histories of 4-30 operations {make value of 9 kinds, hold through 12 holder kinds, share n times, read through holder, drop slot, "
        "release holder, destruct holding object, evaluation ending in caught / uncaught / injected error} grouped into 1-5 driver calls, or a generated "
        "whole program (C03 grammar) loaded, called and destructed; each scenario runs 3 times in one driver. non-trivial = a refcounted value was held "
        "by >= 2 holders and the history contains an error ending, a destruct of a holding object or a release in non-creation order; distinct = history hash")
ASSUMPTIONS = ["more than 65535 references are made to every kind of value except strings: a string's 16-bit counter saturates and the string is then immortal by "
               "design (INC_COUNTED_REF in src/stralloc.h), which is a deliberate leak and not a premature release",
               "repetition 1 warms one-time caches (shared strings of names, apply cache, uid strings); the equality is asserted between repetitions 2 and 3",
               "cyclic containers are broken before release (reference counting cannot free a cycle; the manual says so)",
               "live heap bytes come from the sanitizer allocator interface; driver counters from the driver's own statistics variables"]
NONTRIVIAL_FLOOR = {"quick": 300, "thorough": 5000}

NK = 9      # value kinds
HK = 12     # holder kinds
MAIN = r'''
class Box { mixed v; mixed w; }
mixed *slots = allocate(8);
mixed *holders = allocate(16);
int *hkind = allocate(16);
mapping hm = ([ ]);
mapping keyed = ([ ]);
object *obs = ({ });
int zero;

void create() { seteuid(getuid()); }
mixed lfun(mixed x) { return x; }
// clone names carry a running number: push it to four digits so that name lengths do not change between repetitions
void warm() { int i; for (i = 0; i < 1000; i++) destruct(new("/t/c06ob")); }
void co_cb(mixed v) { }
int act_cb(mixed v, string arg) { return 1; }

mixed mk(int kind, int tag) {
  object o;
  class Box b;
  buffer bf;
  switch (kind) {
  case 0: return ({ "arr", tag, ({ tag }) });
  case 1: return ([ "map": tag, tag: ({ tag }) ]);
  case 2: b = new(class Box); b->v = tag; b->w = ({ tag, "w" }); return b;
  case 3: bf = allocate_buffer(16); bf[0] = tag; return bf;
  case 4: return (: lfun, tag :);
  case 5: return (: lfun, ({ tag, ([ "in": tag ]) }) :);
  case 6: return "str_" + tag + "_" + repeat_string("x", tag);
  case 7: o = new("/t/c06ob"); o->set_tag(tag); obs += ({ o }); return o;
  case 8: return ({ ({ "deep", ({ tag }) }), tag, ([ "m": ({ tag }) ]) });
  }
  return 0;
}
int ident(mixed v) {
  int t;
  if (arrayp(v)) return intp(v[1]) ? v[1] : -2;
  if (mapp(v)) return v["map"];
  if (classp(v)) return ((class Box)v)->v;
  if (bufferp(v)) return v[0];
  if (functionp(v)) { v = evaluate(v); return arrayp(v) ? v[0] : v; }
  if (stringp(v)) { sscanf(v, "str_%d_", t); return t; }
  if (objectp(v)) return v->query_tag();
  return -1;
}
object helper() { object o = new("/t/c06ob"); obs += ({ o }); return o; }

void hold(int h, int s, int hk, int n) {
  mixed v = slots[s];
  mixed c;
  object o;
  class Box b;
  int i;
  hkind[h] = hk;
  switch (hk) {
  case 0: holders[h] = v; break;
  case 1: holders[h] = ({ ({ v }), ([ "k": v ]) }); break;
  case 2: hm[h] = v; holders[h] = 1; break;
  case 3: b = new(class Box); b->v = v; b->w = ({ v }); holders[h] = b; break;
  case 4: o = helper(); holders[h] = ({ o, o->do_call_out(v) }); break;
  case 5: o = helper(); holders[h] = ({ o, o->do_call_out_fp(v) }); break;
  case 6: holders[h] = (: lfun, v :); break;
  case 7: o = helper(); o->do_add_action(v, "verb" + h); holders[h] = o; break;
  case 8: o = helper(); o->set_held(v); holders[h] = o; break;
  case 9: c = ({ v, 0 }); c[1] = c; holders[h] = c; break;
  case 10: c = allocate(n); for (i = 0; i < n; i++) c[i] = v; holders[h] = c; break;
  case 11: holders[h] = ([ v : h ]); break;     // held as a mapping key
  }
}
int read(int h) {
  mixed x = holders[h];
  mixed k;
  switch (hkind[h]) {
  case 0: return ident(x);
  case 1: return ident(x[0][0]) == ident(x[1]["k"]) ? ident(x[0][0]) : -3;
  case 2: return ident(hm[h]);
  case 3: return ident(((class Box)x)->v);
  case 4: case 5: return x[0] ? x[0]->held_ident() : -4;
  case 6: return ident(evaluate(x));
  case 7: case 8: return x ? x->held_ident() : -4;
  case 9: return ident(x[1][1][0]);
  case 10: return ident(x[0]) == ident(x[sizeof(x) - 1]) ? ident(x[sizeof(x) / 2]) : -3;
  case 11: return sizeof(x) == 1 ? ident(keys(x)[0]) : -5;
  }
  return -6;
}
void rel(int h) {
  mixed x = holders[h];
  mixed k;
  switch (hkind[h]) {
  case 2: map_delete(hm, h); break;
  case 4: case 5: if (x && x[0]) x[0]->undo_call_out(x[1]); break;
  case 7: if (x) x->undo_add_action("verb" + h); break;
  case 8: if (x) x->set_held(0); break;
  case 9: if (x) x[1] = 0; break;
  }
  holders[h] = 0;
}
void dest(int h) {
  mixed x = holders[h];
  if ((hkind[h] == 4 || hkind[h] == 5) && arrayp(x) && objectp(x[0])) destruct(x[0]);
  else if ((hkind[h] == 7 || hkind[h] == 8) && objectp(x)) destruct(x);
  else rel(h);
  holders[h] = 0;
}
mixed failing(mixed v, int how) {
  mixed *tmp = ({ v, ({ v }), ([ "k": v ]) });
  switch (how) {
  case 0: return map(tmp, (: error("in callback\n") :));
  case 1: return ({ v, v, tmp, 1 / zero });
  case 2: return sort_array(({ v, v, v }), (: throw(({ $1, $2 })) :));
  case 3: return filter(([ "a": v, "b": tmp ]), (: $2[zero + 5] :));
  case 4: return implode(({ "a", "b" }), (: error("implode\n") :));
  case 5: return sprintf("%O", tmp) + (1 / zero);
  }
  return 0;
}
// range assignments in statement context that replace refcounted elements by the elements of a temporary (same and other lengths)
mixed scratch;
void rangeset(mixed v) {
  mixed *t = ({ ({ v }), ({ v, v }), v, "s" + sizeof(slots), ([ "k": v ]) });
  mixed *u = ({ v, ({ v }) });
  t[0..1] = ({ ({ v, 1 }), "r" + sizeof(slots) });
  t[1..2] = ({ ([ "k": v ]), ({ }) });
  t[2..3] = ({ v });
  t[0..0] = u;
  u[0..1] = t[0..1];
  scratch = ({ t, u });
  scratch[0][0..1] = ({ ({ v }), ({ v }) });
  scratch = 0;
}
// one driver call: ops separated by ';', fields by ','. Returns the reads made: ({ ({ h, ident }), ... })
mixed run(string script) {
  mixed *out = ({ });
  string *f;
  mixed e;
  foreach (string op in explode(script, ";")) {
    f = explode(op, ",");
    switch (f[0]) {
    case "mk": slots[to_int(f[1])] = mk(to_int(f[2]), to_int(f[3])); break;
    case "hold": hold(to_int(f[1]), to_int(f[2]), to_int(f[3]), to_int(f[4])); break;
    case "read": out += ({ ({ to_int(f[1]), read(to_int(f[1])) }) }); break;
    case "drop": slots[to_int(f[1])] = 0; break;
    case "rel": rel(to_int(f[1])); break;
    case "dest": dest(to_int(f[1])); break;
    case "cerr": e = catch(failing(slots[to_int(f[1])], to_int(f[2]))); out += ({ ({ -1, e ? 1 : 0 }) }); break;
    case "uerr": failing(slots[to_int(f[1])], to_int(f[2])); break;
    case "rng": rangeset(slots[to_int(f[1])]); break;
    }
  }
  return out;
}
mixed dbg() { return ({ objects(), obs }); }
void cleanup() {
  int i;
  for (i = 0; i < sizeof(holders); i++) if (holders[i]) rel(i);
  foreach (object o in obs) if (o) destruct(o);
  foreach (object o in children("/t/c06ob")) if (o) destruct(o);   // helpers made by a call that was cut short
  obs = ({ });
  slots = allocate(8); holders = allocate(16); hkind = allocate(16); hm = ([ ]); keyed = ([ ]);
}
'''
OB = r'''
int tag;
mixed held;
void create() { seteuid(getuid()); }
void set_tag(int t) { tag = t; }
int query_tag() { return tag; }
void set_held(mixed v) { held = v; }
int held_ident() { return "/t/c06"->ident(held); }
void co_cb(mixed v) { }
int do_call_out(mixed v) { held = v; return call_out("co_cb", 100000, v, ({ v })); }
int do_call_out_fp(mixed v) { held = v; return call_out((: co_cb, v :), 100000); }
void undo_call_out(int handle) { remove_call_out(handle); held = 0; }
int act_cb(mixed v, string arg) { return 1; }
void do_add_action(mixed v, string verb) { held = v; enable_commands(); add_action((: act_cb, v :), verb); }
void undo_add_action(string verb) { held = 0; destruct(this_object()); }   // a sentence holding a function pointer goes with its object
'''
FILES = {"t/c06.c": MAIN, "t/c06ob.c": OB}
# the verification master keeps logs of the errors it was handed: empty them, then the driver's deferred clean-up
CLEAN = [["call", "/master", "verif_errors"], ["call", "/master", "verif_take_error"], ["call", "/master", "verif_take_compile_errors"],
         ["call", "/master", "verif_clear_log"],
         # call_outs of destructed owners are dropped when they come due: let them come due in the real backend loop (the whole
         # case runs inside one backend() entry)
         ["tick", "200000"], ["cycle", "2"], ["gc"], ["clearcache"], ["stats"]]
STAT_KEYS = ["arrays", "array_size", "mappings", "map_nodes", "strings", "allocd_strings", "allocd_bytes", "objects", "progs", "sentences", "obj_list",
             "obj_destruct", "heap"]


@st.composite
def holder_cases(draw):
    nops = draw(st.integers(4, 30))
    slots, holders, slotkind = {}, {}, {}           # slot -> tag ; holder -> tag ; slot -> value kind
    calls, cur = [], []
    ntag = [0]
    feats = set()
    creation = []
    for _ in range(nops):
        kind = draw(st.sampled_from(["mk", "mk", "hold", "hold", "hold", "read", "read", "drop", "rel", "dest", "cerr", "uerr", "call", "inject", "bigshare", "rng"]))
        if kind == "mk" or not slots:
            s = draw(st.integers(0, 7))
            ntag[0] += 1
            tag = 100 + ntag[0]
            vk = draw(st.integers(0, NK - 1))
            cur.append("mk,%d,%d,%d" % (s, vk, tag))
            slots[s] = tag
            slotkind[s] = vk
        elif kind == "hold":
            h = draw(st.integers(0, 15))
            if h in holders:
                continue
            s = draw(st.sampled_from(sorted(slots)))
            hk = draw(st.integers(0, HK - 1))
            n = draw(st.sampled_from([1, 2, 255, 256, 1000, 33000, 33000]))
            if slotkind[s] == 6 and n > 1000:
                n = 1000          # strings are not shared past 65535 references (see ASSUMPTIONS)
            cur.append("hold,%d,%d,%d,%d" % (h, s, hk, n))
            holders[h] = slots[s]
            creation.append(h)
            if list(holders.values()).count(slots[s]) >= 2:
                feats.add("two-holders")
        elif kind == "bigshare" and slots and "bigshare" not in feats:
            # more than 65535 references to one value (the counters are 16 bits wide): two or three arrays of 33000 slots
            free = [h for h in range(16) if h not in holders][:draw(st.integers(2, 3))]
            # strings are excluded by construction: their counter saturates and the string becomes immortal by design (stralloc.h)
            cand = [x for x in sorted(slots) if slotkind[x] != 6]
            if not cand:
                continue
            s = draw(st.sampled_from(cand))
            for h in free:
                cur.append("hold,%d,%d,10,33000" % (h, s))
                holders[h] = slots[s]
                creation.append(h)
            if len(free) >= 2:
                feats.add("bigshare")
                feats.add("two-holders")
        elif kind == "read" and holders:
            cur.append("read,%d" % draw(st.sampled_from(sorted(holders))))
        elif kind == "drop" and slots:
            s = draw(st.sampled_from(sorted(slots)))
            cur.append("drop,%d" % s)
            del slots[s]
        elif kind in ("rel", "dest") and holders:
            h = draw(st.sampled_from(sorted(holders)))
            cur.append("%s,%d" % (kind, h))
            if creation and creation[0] != h:
                feats.add("out-of-order-release")
            if kind == "dest":
                feats.add("destruct-holder")
            creation.remove(h)
            del holders[h]
        elif kind == "rng" and slots:
            cur.append("rng,%d" % draw(st.sampled_from(sorted(slots))))
            feats.add("range-assign")
        elif kind == "cerr" and slots:
            cur.append("cerr,%d,%d" % (draw(st.sampled_from(sorted(slots))), draw(st.integers(0, 5))))
            feats.add("error-ending")
        elif kind == "uerr" and slots:
            cur.append("uerr,%d,%d" % (draw(st.sampled_from(sorted(slots))), draw(st.integers(0, 5))))
            calls.append(dict(script=";".join(cur), inject=0))
            cur = []
            feats.add("error-ending")
        elif kind == "call" and cur:
            calls.append(dict(script=";".join(cur), inject=0))
            cur = []
        elif kind == "inject" and cur and not any(op.startswith("hold,") and op.split(",")[3] == "9" for op in cur):
            # the call is cut short by an injected error somewhere: what it did before stays, the model stops trusting reads
            calls.append(dict(script=";".join(cur), inject=draw(st.integers(1, 400))))
            cur = []
            feats.add("error-ending")
            feats.add("injected")
            break
    if cur:
        calls.append(dict(script=";".join(cur), inject=0))
    # reads at the very end through every holder the model still knows (not after an injection: the model is then unsure)
    expect = dict(holders)
    if "injected" not in feats and holders:
        calls.append(dict(script=";".join("read,%d" % h for h in sorted(holders)), inject=0))
    return dict(layer="holders", calls=calls, feats=sorted(feats), expect={str(k): v for k, v in expect.items()})


def cases():
    from . import c03
    prog = st.builds(lambda p, k: dict(layer="program", prog=p, inject=k), c03.programs(), st.sampled_from([0, 0, 3, 17, 40, 90, 200, 500]))
    return st.one_of(holder_cases(), holder_cases(), holder_cases(), prog)


def run_holders(ctx, w, case):
    steps = [["load", "t/c06.c"], ["call", "t/c06", "warm"], ["gc"], ["backend"]]
    marks = []
    reads = []
    for rep in range(3):
        for c in case["calls"]:
            if c["inject"]:
                steps += [["monitor", "reset"], ["inject", str(c["inject"])]]
            steps.append(["call", "t/c06", "run", arg(c["script"])])
            reads.append((len(steps) - 1, c))
            if c["inject"]:
                steps.append(["monitor", "reset"])
        steps += [["call", "t/c06", "cleanup"]] + CLEAN
        marks.append(len(steps) - 1)
    steps.append(["endbackend"])
    return steps, marks, reads


def evaluate_case(ctx, w, case):
    info = "case %r" % (case,)
    if case["layer"] == "holders":
        steps, marks, reads = run_holders(ctx, w, case)
        res = w.run(steps)
    else:
        from . import c03
        files, names = c03.render_program(case["prog"])
        w.write("t/c06prog.c", files["r"])
        steps, marks, reads = [["backend"]], [], []
        inj = case.get("inject", 0)
        for rep in range(3):
            steps.append(["load", "t/c06prog.c"])
            for vn, sp, ff in names:
                if ff != "r" or sp["inputs"] != "args":
                    continue
                if inj:
                    steps += [["monitor", "reset"], ["inject", str(inj)]]
                steps.append(["call", "t/c06prog", "run_args", arg("v_" + vn)])
                if inj:
                    steps.append(["monitor", "reset"])
            steps += [["destruct", "t/c06prog"]] + CLEAN
            marks.append(len(steps) - 1)
        steps.append(["endbackend"])
        res = w.run(steps)
    if res.timed_out:
        ctx.inconclusive["timeout"] += 1
        return None, None
    cr = res.crash()
    if cr:
        return ("crash:" + cr[1][:70], info + "\n" + cr[2][:2500]), None
    # (b) reads
    if case["layer"] == "holders":
        injected = False
        for idx, c in reads:
            r = res.step(idx) or {}
            if c["inject"]:
                injected = True
                continue
            if c["script"].endswith(tuple("uerr,%d,%d" % (s, h) for s in range(8) for h in range(6))):
                if r.get("st") != "err":
                    return ("error-did-not-surface", "call %r should end in an error, got %r\n%s" % (c["script"], str(r)[:200], info)), None
                continue
            if r.get("st") != "val":
                if injected:
                    continue
                return ("call-failed", "call %r gave %r\n%s" % (c["script"], str(r)[:300], info)), None
        # the final read call checks every surviving holder against the model
        if "injected" not in case["feats"] and case["expect"]:
            nper = len(case["calls"])
            for rep in range(3):
                idx = reads[rep * nper + nper - 1][0]
                r = res.step(idx) or {}
                if r.get("st") != "val":
                    return ("final-read-failed", "final reads gave %r\n%s" % (str(r)[:300], info)), None
                got = {str(x[1][0]): x[1][1] for x in unjson(r["v"])[1]}
                if got != {k: v for k, v in case["expect"].items()}:
                    return ("holder-reads-wrong-value", "repetition %d: holders read %r, model %r\n%s" % (rep + 1, got, case["expect"], info)), None
    # (a) statistics equal after repetitions 2 and 3
    s2, s3 = res.step(marks[1], "stats"), res.step(marks[2], "stats")
    if not s2 or not s3:
        return ("no-stats", "%r\n%s" % (res.recs[-3:], info)), None
    diff = {k: (s2.get(k), s3.get(k)) for k in STAT_KEYS if s2.get(k) != s3.get(k)}
    if diff:
        return ("leak:" + ",".join(sorted(diff)), "live-value statistics after repetition 2 vs 3: %r\n%s" % (diff, info)), None
    return None, set(case.get("feats", ["program"]))


_workers = {}


def get_worker(ctx):
    w = _workers.get(ctx.rundir)
    if w is None:
        w = Worker(ctx.scratch("w"), timeout=30, mudlib_files=FILES, conf={"MaxEvaluationCost": "3000000", "MaxArraySize": "60000"})
        _workers[ctx.rundir] = w
    return w


def close_workers(ctx):
    w = _workers.pop(ctx.rundir, None)
    if w:
        w.close()


def check(ctx, case):
    f, feats = evaluate_case(ctx, get_worker(ctx), case)
    if f:
        ctx.evaluations += 1
        ctx.fail(f[0], case, f[1])
        return
    if feats is None:
        ctx.case_done(None, ["not-executed"])
        return
    nontriv = case["layer"] == "program" or ("two-holders" in feats and (feats & {"error-ending", "destruct-holder", "out-of-order-release"}))
    ctx.case_done(runner.khash(case) if nontriv else None, ["layer:" + case["layer"]] + sorted(feats),
                  sample=case if case["layer"] == "holders" else dict(layer="program"))


def shard_main(ctx):
    from hypothesis import given
    n = {"quick": 700, "thorough": 12000}[ctx.tier]

    @given(cases())
    def test(case):
        check(ctx, case)

    try:
        runner.run_hypothesis(ctx, test, n)
    finally:
        close_workers(ctx)


def replay(ctx, case):
    try:
        f, _ = evaluate_case(ctx, get_worker(ctx), case)
        return f
    finally:
        close_workers(ctx)
