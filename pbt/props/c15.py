"""C15 - file access is confined to the mudlib and always mediated by the master.

Every file efun x paths (exhaustive over a small path alphabet up to a length bound, plus generated long /
dotted / hidden / over-long paths) x master policies {deny, allow, rewrite, file-backed (the master reads its own list with read_file while it is asked)}; plus #include / inherit /
load_object / clone_object / call_other names. Oracle: the merged master apply log and the interposed libc
file-call log of each single efun call."""
import fnmatch, itertools, os

from hypothesis import strategies as st

from .. import runner
from ..genlpc import lpc_str
from ..worker import Worker, arg, unjson

LEVEL = "exploration"
RULE = ("cases = (file efun or loader, path [, second path], master policy); paths: ALL strings over {a,b,.,/,#,space} up to length 4 (quick) / 5 "
        "(thorough) for one-path efuns and all pairs up to length 2 for two-path efuns - that part is exhaustive - plus generated paths with "
        "'..' at every position, '...', hidden names, trailing '/.', '//', 255/256-byte components and totals past 1024 and PATH_MAX. "
        "non-trivial = the path has a '.'-component, '#', is longer than 255, or the policy rewrites; distinct = (efun, path, policy)")
ASSUMPTIONS = ["every libc function taking a path that the repository's objects import is interposed at link time (harness/wraps.c); calls are logged before they run",
               "an approved path is the string the master returned, or the path it was asked about minus leading slashes; derived paths are "
               "<approved>.o, <approved>.o.tmp, <approved>.c, <approved>/<entry>",
               "loaders (include, inherit, load/clone/call_other) are only held to the path rules (relative, no '..'), the statement does not require master mediation for them"]
NONTRIVIAL_FLOOR = {"quick": 1000, "thorough": 20000}

ALPHA = "ab./# "
ONE = ["read_file", "write_file", "read_bytes", "write_bytes", "read_buffer", "write_buffer", "file_size", "stat", "get_dir", "get_dir_long", "tail", "rm", "mkdir",
       "rmdir", "save_object", "restore_object", "file_length", "dumpallobj", "dump_prog"]
TWO = ["rename", "cp", "link"]
LOADERS = ["load_object", "clone_object", "find_object1", "call_other", "include", "include_sys", "inherit"]
POLICIES = ["deny", "allow", "rewrite:/scratch/x"]
GEN_POLICIES = POLICIES + ["acl", "acl"]      # the file-backed master only in the generated part (the exhaustive part keeps its size)
OPEN_CALLS = ("open", "fopen", "freopen", "creat")
ACL_TEXT = "ACL-SECRET-LIST\neverything is allowed\n"

AGENT = r'''
void create() { seteuid(getuid()); }
mixed run(string ef, string p, string q) {
  mixed r;
  mixed err = catch {
    switch (ef) {
    case "read_file": r = read_file(p); break;
    case "write_file": r = write_file(p, "x"); break;
    case "read_bytes": r = read_bytes(p, 0, 4); break;
    case "write_bytes": r = write_bytes(p, 0, "x"); break;
    case "read_buffer": r = read_buffer(p, 0, 4); break;
    case "write_buffer": r = write_buffer(p, 0, "x"); break;
    case "file_size": r = file_size(p); break;
    case "stat": r = stat(p); break;
    case "get_dir": r = get_dir(p); break;
    case "get_dir_long": r = get_dir(p, -1); break;
    case "tail": r = tail(p); break;
    case "rm": r = rm(p); break;
    case "mkdir": r = mkdir(p); break;
    case "rmdir": r = rmdir(p); break;
    case "save_object": r = save_object(p); break;
    case "restore_object": r = restore_object(p); break;
    case "file_length": r = file_length(p); break;
    case "dumpallobj": dumpallobj(p); r = 1; break;
    case "dump_prog": dump_prog(this_object(), 0, p); r = 1; break;
    case "rename": r = rename(p, q); break;
    case "cp": r = cp(p, q); break;
    case "link": r = link(p, q); break;
    case "load_object": r = objectp(load_object(p)); break;
    case "clone_object": r = objectp(new(p)); break;
    case "find_object1": r = objectp(find_object(p, 1)); break;
    case "call_other": r = call_other(p, "query_nothing"); break;
    }
  };
  return ({ err, stringp(r) ? "<string>" : (arrayp(r) ? "<array>" : (bufferp(r) ? "<buffer>" : r)) });
}
'''


def enum_paths(maxlen):
    for n in range(0, maxlen + 1):
        for t in itertools.product(ALPHA, repeat=n):
            yield "".join(t)


# a directory that exists, five levels of 250-byte names deep, holding one file with a 250-byte name: 1260 bytes of path
DEEP = "deep/" + "/".join("d" * 250 for _ in range(5))
DEEP_FILE = DEEP + "/" + "f" * 250
long_comp = st.sampled_from(["a" * 255, "b" * 256, "a" * 1030, "." * 3, ".hidden", "..", ".", "a", "b", "x y", "#1", "a#b", "scratch", "t", "..."])
gen_paths = st.one_of(
    st.lists(long_comp, min_size=1, max_size=6).map(lambda c: "/".join(c)),
    st.lists(long_comp, min_size=1, max_size=6).map(lambda c: "/" + "/".join(c)),
    st.lists(long_comp, min_size=1, max_size=4).map(lambda c: "/".join(c) + "/."),
    st.lists(long_comp, min_size=1, max_size=4).map(lambda c: "//" + "//".join(c)),
    st.lists(st.sampled_from(["a", "b" * 255]), min_size=20, max_size=40).map(lambda c: "/".join(c)),
    st.text(alphabet=ALPHA, min_size=5, max_size=12),
    st.sampled_from(["/" + DEEP, "/" + DEEP + "/", DEEP + "/.", "/" + DEEP + "/ff*", "/" + DEEP_FILE, "/" + DEEP.rsplit("/", 1)[0], "/" + DEEP.rsplit("/", 2)[0] + "/*", "/deep"]),
)
dot_comp = st.sampled_from(["..", "..", ".", "", "", "a", "b", "t", "inc", "canary", "a.h"])
loader_paths = st.one_of(gen_paths, st.lists(dot_comp, min_size=2, max_size=7).map(lambda c: "/".join(c)))
loader_probes = st.tuples(st.sampled_from(["include", "include", "include_sys", "inherit", "load_object", "clone_object", "call_other"]), loader_paths, st.just(""), st.just("allow"))
probes_gen = st.tuples(st.sampled_from(ONE + TWO + LOADERS[:4] + ["read_file", "read_bytes", "file_length", "tail"]),
                       st.one_of(gen_paths, st.sampled_from(["/a", "a", "/b/a", "/scratch/x", "/ab.c", "/.hidden", "/acl.txt"])), gen_paths, st.sampled_from(GEN_POLICIES))


def nontrivial_path(p, policy):
    comps = p.split("/")
    return any(c.startswith(".") for c in comps if c) or "#" in p or len(p) > 255 or policy.startswith("rewrite")


def run_probes(ctx, w, probes):
    """probes: list of (efun, p, q, policy). returns (failure or None, executed count)"""
    steps = [["load", "t/agent.c"], ["call", "/master", "set_policy", arg("log"), arg(1)], ["filelog", "on"]]
    base = len(steps)
    cur_policy = None
    marks = []
    for ef, p, q, pol in probes:
        if "\x00" in p or "\x00" in q:
            continue
        if pol != cur_policy:
            steps.append(["call", "/master", "set_policy", arg("read"), arg(pol)])
            steps.append(["call", "/master", "set_policy", arg("write"), arg(pol)])
            cur_policy = pol
        steps.append(["call", "/master", "verif_clear_log"])
        steps.append(["filelog", "dump"])
        if ef in ("include", "include_sys", "inherit"):
            name = "t/inc_probe.c"
            txt = {"include": '#include %s\nint x;\n' % lpc_str(p), "include_sys": "#include <%s>\nint x;\n" % p.replace(">", "").replace("\n", ""),
                   "inherit": "inherit %s;\nint x;\n" % "\n".join(lpc_str(p[j:j + 900]) for j in range(0, max(len(p), 1), 900))}[ef]   # adjacent literals: a source line holds 1024 bytes
            steps.append(["load", name, txt])        # small text: the pre_text path is fine here
        else:
            steps.append(["call", "t/agent", "run", arg(ef), arg(p), arg(q)])
        steps.append(["filelog", "dump"])
        steps.append(["call", "/master", "verif_get_log"])
        marks.append((len(steps) - 3, ef, p, q, pol))
    res = w.run(steps)
    if res.timed_out:
        ctx.inconclusive["timeout"] += 1
        return None, 0
    cr = res.crash()
    if cr:
        # find the probe that was running
        last = max([r.get("i", 0) for r in res.recs] or [0])
        running = [m for m in marks if m[0] >= last - 3][:1]
        return ("crash:" + cr[1][:70], "probe %r\n%s" % (running, cr[2][:2500])), 0
    n = 0
    for si, ef, p, q, pol in marks:
        n += 1
        call = res.step(si) or {}
        fl = res.step(si + 1, "filelog") or {"log": []}
        ml = res.step(si + 2) or {}
        mlog = [x[1] for x in unjson(ml["v"])[1]] if ml.get("st") == "val" else []
        flog = [(a, b) for a, b in fl["log"]]
        asked = [l for l in mlog if l[0] in ("valid_read", "valid_write")]
        where = "%s(%r%s) under policy %s\nmaster log %r\nlibc log %r\nresult %r" % (ef, p, ", %r" % q if ef in TWO else "", pol, mlog, flog, str(call)[:200])
        loader = ef in LOADERS
        # the compile of t/inc_probe.c itself opens nothing (it is given as text); loaders open source / include files
        # (c) path rules for every libc call
        approved = set()
        for l in asked:
            if pol.startswith("rewrite:"):
                approved.add(pol[8:].lstrip("/"))
            approved.add(l[1].lstrip("/"))
        for fn, path in flog:
            if path.startswith("/"):
                return ("absolute-host-path:" + ef, "libc %s(%r)\n%s" % (fn, path, where)), n
            if ".." in path.split("/"):
                return ("dotdot-reaches-libc:" + ef, "libc %s(%r)\n%s" % (fn, path, where)), n
            if loader:
                continue
            ok = False
            np_ = os.path.normpath(path) if path else "."
            for a in approved:
                na = os.path.normpath(a) if a else "."          # same file: '//' and '/.' are spelling only ('..' was rejected above)
                if np_ == na or np_ in (na + ".o", na + ".o.tmp", na + ".tmp", na + ".c") or np_.startswith(na + "/") or na == ".":
                    ok = True
                if na.endswith(".o") and np_ in (na, na + ".tmp"):
                    ok = True
                # get_dir / stat of a name that does not exist match it as a pattern in its parent directory
                if ef in ("get_dir", "get_dir_long", "stat") and np_ == (os.path.dirname(na) or "."):
                    ok = True
                # ... and the detailed form stats every entry of that directory which the pattern matches
                if ef == "get_dir_long" and os.path.dirname(np_) == os.path.dirname(na) and fnmatch.fnmatchcase(os.path.basename(np_), os.path.basename(na)):
                    ok = True
            if not ok:
                stem = np_[:-4] if np_.endswith(".tmp") else np_
                if len(stem) >= 200 and any(os.path.normpath(a).startswith(stem) for a in approved if a):
                    # a fixed-size buffer cut the approved name short: the file touched is a different one
                    return ("unapproved-path-touched:%s:truncated-name" % ef, "libc %s(%r) is a truncation of the approved path\n%s" % (fn, path[:60] + "...", where[:1500])), n
                return ("unapproved-path-touched:" + ef, "libc %s(%r) is not derived from an approved path %r\n%s" % (fn, path, sorted(approved), where)), n
        if loader:
            continue
        # (a) mediation before any file-system access
        if flog and not asked:
            return ("file-touched-without-asking-master:" + ef, where), n
        # (b) denied -> nothing touched and the efun reports failure
        if pol == "deny":
            if flog:
                return ("file-touched-although-denied:" + ef, where), n
            if call.get("st") == "val":
                v = unjson(call["v"])
                errv, r = v[1][0], v[1][1]
                # rename() and link() return 0 for success and 1 for failure; the others 0 / -1 / empty for failure
                if errv == 0 and r not in (0, -1, ("a", [])) and ef not in ("dumpallobj", "dump_prog", "rename", "link"):
                    return ("success-reported-although-denied:" + ef, where), n
        # (d) a master that reads its own list while being asked: the efun still works on the path that was approved
        if pol == "acl":
            outer = [l for l in asked if l[2].lstrip("/") != "master"]
            opens = [path for fn, path in flog if os.path.normpath(path) == "acl.txt" and fn in OPEN_CALLS]
            own = sum(1 for l in outer if os.path.normpath(l[1].lstrip("/") or ".") == "acl.txt")
            if len(opens) > len(outer) + own:
                return ("masters-own-file-opened-for-the-caller:" + ef, "acl.txt was opened %d times for %d questions to the master\n%s" % (len(opens), len(outer), where)), n
        # every asked apply names the calling object and an operation name
        for l in asked:
            if not l[2] or l[2] == "0" or not isinstance(l[3], str) or not l[3]:
                return ("master-asked-without-caller-or-operation:" + ef, where), n
    return None, n


_workers = {}


def get_worker(ctx):
    w = _workers.get(ctx.rundir)
    if w is None:
        fl = {"t/agent.c": AGENT, "a": "decoy a\n", "b/a": "decoy\n", "ab.c": "int x;\n", "a.o": "#/t/agent.c\n", "scratch/x": "rewritten target\n",
              "scratch/x.o": "#/t/agent.c\n", "inc/a": "int y;\n", ".hidden": "h\n", "acl.txt": ACL_TEXT, DEEP_FILE: "deep file\n"}
        w = Worker(ctx.scratch("w"), timeout=60, mudlib_files=fl, conf={"IncludeDir": "/inc"})
        # canaries outside the mudlib: siblings of the mudlib directory reachable through "../a", "../b"
        for nme in ("a", "b", "canary"):
            open(os.path.join(w.rundir, nme), "w").write("outside canary %s\n" % nme)
        _workers[ctx.rundir] = w
    return w


def canaries_intact(w):
    for nme in ("a", "b", "canary"):
        p = os.path.join(w.rundir, nme)
        if not os.path.exists(p) or open(p).read() != "outside canary %s\n" % nme:
            return nme
    return None


def close_workers(ctx):
    w = _workers.pop(ctx.rundir, None)
    if w:
        w.close()


def reset_mudlib(w):
    for rel, txt in {"a": "decoy a\n", "b/a": "decoy\n", "scratch/x": "rewritten target\n", "acl.txt": ACL_TEXT, DEEP_FILE: "deep file\n"}.items():
        p = os.path.join(w.mudlib, rel)
        try:
            if os.path.isdir(p):
                continue
            os.makedirs(os.path.dirname(p), exist_ok=True)
            open(p, "w").write(txt)
        except OSError:
            pass


def run_batch(ctx, probes):
    w = get_worker(ctx)
    reset_mudlib(w)
    f, n = run_probes(ctx, w, probes)
    bad = canaries_intact(w)
    if bad and not f:
        f = ("outside-canary-touched", "file %s outside the mudlib was modified by one of %r" % (bad, probes[:20]))
    return f, n


def shard_main(ctx):
    from hypothesis import given
    L1 = {"quick": 4, "thorough": 5}[ctx.tier]
    L2 = 2
    ctx.extra["exhaustive_part_complete"] = 0
    try:
        # (1) exhaustive part, sliced over shards
        probes = []
        i = 0
        for p in enum_paths(L1):
            for ef in ONE + LOADERS:
                for pol in (POLICIES if ef not in LOADERS else POLICIES[1:2]):
                    if i % ctx.nshards == ctx.shard:
                        probes.append((ef, p, "", pol))
                    i += 1
        for p in enum_paths(L2):
            for q in enum_paths(L2):
                for ef in TWO:
                    for pol in POLICIES:
                        if i % ctx.nshards == ctx.shard:
                            probes.append((ef, p, q, pol))
                        i += 1
        probes.sort(key=lambda x: x[3])
        for k in range(0, len(probes), 400):
            batch = probes[k:k + 400]
            f, n = run_batch(ctx, batch)
            for ef, p, q, pol in batch[:n] if n else batch:
                ctx.evaluations += 1
                if nontrivial_path(p, pol):
                    ctx.nontrivial.add(runner.khash([ef, p, q, pol]))
                ctx.classes["efun:" + ef] += 1
            if f:
                # narrow the batch down to the single failing probe
                for pr in batch:
                    f1, _ = run_batch(ctx, [pr])
                    if f1:
                        ctx.fail(f1[0], dict(probes=[list(pr)]), f1[1])
                        break
                else:
                    ctx.fail(f[0], dict(probes=[list(x) for x in batch]), f[1])
        ctx.extra["exhaustive_part_complete"] = 1
        ctx.samples.append(dict(exhaustive_slice_size=len(probes), example=[list(x) for x in probes[5:9]]))

        # (2) generated long / dotted paths
        n = {"quick": 300, "thorough": 3000}[ctx.tier]

        @given(st.lists(st.one_of(probes_gen, probes_gen, loader_probes), min_size=20, max_size=60))
        def test(batch):
            f, cnt = run_batch(ctx, batch)
            if f:
                ctx.evaluations += 1
                ctx.fail(f[0], dict(probes=[list(x) for x in batch]), f[1])
                return
            for ef, p, q, pol in batch:
                ctx.case_done(runner.khash([ef, p, q, pol]) if nontrivial_path(p, pol) else None, ["efun:" + ef, "generated-path"],
                              sample=dict(efun=ef, path=p[:80], policy=pol))

        runner.run_hypothesis(ctx, test, n)
    except runner.Failure as f:
        ctx.failures.append(dict(sig=f.sig, case=f.case, detail=f.detail[:8000]))
    finally:
        close_workers(ctx)


def replay(ctx, case):
    try:
        f, _ = run_batch(ctx, [tuple(x) for x in case["probes"]])
        return f
    finally:
        close_workers(ctx)
