"""C03 - compiled bytecode computes exactly what LPC semantics define.

Oracle A: an independent reference evaluator (pbt/refeval.py) for a typed grammar over the language core.
Oracle B: sibling spellings of the same program must agree with each other (value or error class):
constant-folded vs run-time inputs, 'x op= y' vs 'x = x op y', '++x' vs 'x = x + 1', switch vs if-chain,
for vs while, local vs global variables, typed vs all-mixed declarations, macro vs expansion,
direct call vs function pointer vs call_other."""
import json, math, struct

from hypothesis import strategies as st

from .. import runner, refeval
from ..genlpc import lpc_str
from ..worker import Worker, arg, unjson

LEVEL = "exploration"
RULE = ("cases = programs from a typed expression/statement grammar (int64/double arithmetic, strings, arrays, mappings, index/range, "
        "all assignment forms on locals/elements/mapping entries, if/switch/for/while/do/while(i--)/foreach, helper-function calls) "
        "x boundary input values; each program is rendered in up to 9 equivalent spellings, all executed in one forked driver, and "
        "compared with each other and with the independent reference evaluator. non-trivial = >= 3 operator nodes and at least one "
        "of {loop, switch, call, compound assignment}; distinct = distinct AST hash")
ASSUMPTIONS = ["reference evaluator written from docs/manual/lpc.md + C arithmetic; computations it does not define (INT64_MIN/-1, "
               "shift counts outside 0..63, negative range indexes, s[strlen(s)], non-finite floats in strings) are discarded and counted",
               "errors are compared by class (division by zero / modulus by zero / index out of bounds), never by text",
               "floats compared bit-exactly: both sides are IEEE double computations of the same operation sequence"]
NONTRIVIAL_FLOOR = {"quick": 300, "thorough": 5000}

IBOUND = [0, 1, -1, 2, 3, 7, 10, 31, 32, 63, 64, 255, 256, 65535, 65536, 2147483647, 2147483648, -2147483648, -2147483649,
          4294967295, 4294967296, 4294967297, -4294967296, 9223372036854775807, -9223372036854775808, 9223372036854775806, 1000003]
FBOUND = [0.0, 1.0, -1.0, 0.5, 2.5, -2.5, 1e10, 1e-10, 3.141592653589793, 4294967296.0, 1e18, 123456.789, -0.001]
SBOUND = ["", "a", "abc", "hello world", "0123456789", "A", "zz top", "%d %s", "xyzzyxyzzy", "The quick brown fox"]
ABOUND = [[], [1], [1, 2, 3], [5, 5, 5, 2], [0, -1, 9223372036854775807], list(range(10)), list(range(20)), [3, 1, 2, 3, 1]]

PARAMS = [("I", "a"), ("I", "b"), ("F", "x"), ("S", "s"), ("A", "arr")]
LOCALS = [("I", "i0"), ("I", "i1"), ("I", "i2"), ("F", "f0"), ("S", "s0"), ("A", "a0"), ("M", "m0"),
          ("I", "j0"), ("I", "j1"), ("I", "q0"), ("I", "q1"), ("I", "w0")]
TYPENAME = {"I": "int", "F": "float", "S": "string", "A": "int *", "M": "mapping"}

small_int = st.integers(-4, 12)
ints = st.one_of(st.sampled_from(IBOUND), small_int, st.integers(-(1 << 63), (1 << 63) - 1))
floats = st.one_of(st.sampled_from(FBOUND), st.floats(min_value=-1e6, max_value=1e6, allow_nan=False, allow_infinity=False, width=64))
strings = st.one_of(st.sampled_from(SBOUND), st.text(alphabet="abcXYZ 019_%", max_size=12))
arrays = st.one_of(st.sampled_from(ABOUND), st.lists(st.integers(-5, 5), max_size=12))


def lit(T, v):
    return ["lit", T, v]


def var(T, n):
    return ["var", T, n]


IVARS = ["a", "b", "i0", "i1", "i2", "j0", "j1"]


@st.composite
def iexpr(draw, depth, helpers=()):
    if depth <= 0:
        k = draw(st.integers(0, 3))
        if k == 0:
            return lit("I", draw(st.one_of(small_int, small_int, st.sampled_from(IBOUND))))
        return var("I", draw(st.sampled_from(IVARS)))
    k = draw(st.integers(0, 15))
    if k <= 4:
        op = draw(st.sampled_from(["+", "-", "*", "/", "%", "&", "|", "^"]))
        return ["bin", "I", op, draw(iexpr(depth - 1, helpers)), draw(iexpr(depth - 1, helpers))]
    if k == 5:
        op = draw(st.sampled_from(["<<", ">>"]))
        return ["bin", "I", op, draw(iexpr(depth - 1, helpers)), ["bin", "I", "&", draw(iexpr(depth - 1, helpers)), lit("I", 63)]]
    if k == 6:
        op = draw(st.sampled_from(["==", "!=", "<", "<=", ">", ">="]))
        ty = draw(st.sampled_from(["I", "I", "F", "S", "IF"]))
        if ty == "I":
            return ["bin", "I", op, draw(iexpr(depth - 1, helpers)), draw(iexpr(depth - 1, helpers))]
        if ty == "F":
            return ["bin", "I", op, draw(fexpr(depth - 1)), draw(fexpr(depth - 1))]
        if ty == "IF":
            return ["bin", "I", op, draw(iexpr(depth - 1, helpers)), draw(fexpr(depth - 1))]
        return ["bin", "I", op, draw(sexpr(depth - 1, True)), draw(sexpr(depth - 1, True))]
    if k == 7:
        op = draw(st.sampled_from(["&&", "||"]))
        return ["bin", "I", op, draw(iexpr(depth - 1, helpers)), draw(iexpr(depth - 1, helpers))]
    if k == 8:
        return ["un", "I", draw(st.sampled_from(["-", "~", "!"])), draw(iexpr(depth - 1, helpers))]
    if k == 9:
        return ["cond", "I", draw(iexpr(depth - 1, helpers)), draw(iexpr(depth - 1, helpers)), draw(iexpr(depth - 1, helpers))]
    if k == 10:
        return [draw(st.sampled_from(["idx", "idx", "ridx"])), "I", draw(aexpr(depth - 1)), draw(iexpr(depth - 1, helpers))]
    if k == 11:
        return [draw(st.sampled_from(["idx", "ridx"])), "I", draw(sexpr(depth - 1, True)), draw(iexpr(depth - 1, helpers))]
    if k == 12:
        return ["sizeof", "I", draw(st.one_of(aexpr(depth - 1), sexpr(depth - 1), st.just(var("M", "m0"))))]
    if k == 13:
        return ["midx", "I", var("M", "m0"), draw(iexpr(depth - 1, helpers))]
    if k == 14 and helpers:
        h = draw(st.sampled_from(list(helpers)))
        return ["call", "I", h, [draw(iexpr(depth - 1, ())), draw(iexpr(depth - 1, ()))]]
    return var("I", draw(st.sampled_from(IVARS)))


@st.composite
def fexpr(draw, depth):
    if depth <= 0:
        return draw(st.one_of(st.just(var("F", "x")), st.just(var("F", "f0")), st.sampled_from(FBOUND).map(lambda v: lit("F", v))))
    k = draw(st.integers(0, 6))
    if k <= 2:
        op = draw(st.sampled_from(["+", "-", "*", "/"]))
        return ["bin", "F", op, draw(fexpr(depth - 1)), draw(fexpr(depth - 1))]
    if k == 3:   # mixed int/float arithmetic promotes to float
        op = draw(st.sampled_from(["+", "-", "*", "/"]))
        l, r = draw(iexpr(depth - 1)), draw(fexpr(depth - 1))
        if draw(st.booleans()):
            l, r = r, l
        return ["bin", "F", op, l, r]
    if k == 4:
        return ["un", "F", "-", draw(fexpr(depth - 1))]
    if k == 5:
        return ["tofloat", "F", draw(iexpr(depth - 1))]
    return draw(fexpr(0))


@st.composite
def sexpr(draw, depth, pure=False):
    if depth <= 0:
        return draw(st.one_of(st.just(var("S", "s")), st.just(var("S", "s0")), st.sampled_from(SBOUND).map(lambda v: lit("S", v))))
    k = draw(st.integers(0, 5))
    if k <= 1:
        return ["bin", "S", "+", draw(sexpr(depth - 1, pure)), draw(sexpr(depth - 1, pure))]
    if k == 2 and not pure:
        l, r = draw(sexpr(depth - 1)), draw(st.one_of(iexpr(depth - 1), fexpr(depth - 1)))
        if draw(st.booleans()):
            l, r = r, l
        return ["bin", "S", "+", l, r]
    if k == 3:
        return ["rng", "S", draw(sexpr(depth - 1, True)), draw(rexpr()), draw(rexpr())]
    if k == 4:
        return ["cond", "S", draw(iexpr(depth - 1)), draw(sexpr(depth - 1, pure)), draw(sexpr(depth - 1, pure))]
    return draw(sexpr(0))


@st.composite
def rexpr(draw):
    """range index: mostly small non-negative"""
    k = draw(st.integers(0, 5))
    if k <= 2:
        return lit("I", draw(st.integers(0, 14)))
    if k == 3:
        return ["bin", "I", "&", var("I", draw(st.sampled_from(IVARS))), lit("I", 15)]
    if k == 4:
        return ["bin", "I", "%", ["bin", "I", "&", var("I", draw(st.sampled_from(IVARS))), lit("I", 1023)], lit("I", 7)]
    return lit("I", draw(st.sampled_from([0, 1, 2, 100, 65536, 4294967296])))


@st.composite
def aexpr(draw, depth):
    if depth <= 0:
        return draw(st.one_of(st.just(var("A", "arr")), st.just(var("A", "a0")), st.sampled_from(ABOUND).map(lambda v: lit("A", v))))
    k = draw(st.integers(0, 5))
    if k == 0:
        return ["bin", "A", "+", draw(aexpr(depth - 1)), draw(aexpr(depth - 1))]
    if k == 1:
        return ["bin", "A", "-", draw(aexpr(depth - 1)), draw(aexpr(depth - 1))]
    if k == 2:
        return ["arr", "A", draw(st.lists(iexpr(depth - 1), max_size=4))]
    if k == 3:
        return ["rng", "A", draw(aexpr(depth - 1)), draw(rexpr()), draw(rexpr())]
    return draw(aexpr(0))


@st.composite
def mexpr(draw, depth):
    lit_m = st.dictionaries(st.one_of(st.integers(-3, 40), st.sampled_from([16, 32, 48, 64, 208, 1024, 4294967296])), st.integers(-100, 100), max_size=9).map(
        lambda d: lit("M", [[k, v] for k, v in d.items()]))
    if depth <= 0:
        return draw(st.one_of(st.just(var("M", "m0")), lit_m))
    k = draw(st.integers(0, 3))
    if k == 0:
        return ["bin", "M", "+", draw(mexpr(depth - 1)), draw(mexpr(depth - 1))]
    if k == 1:
        # a one-pair mapping with computed key and value: inside a loop this grows m0 one insertion at a time through '+' / '+='
        key = draw(st.one_of(iexpr(1), st.builds(lambda v, m, a: ["bin", "I", "+", ["bin", "I", "*", var("I", v), lit("I", m)], lit("I", a)],
                                                 st.sampled_from(["j0", "j1", "i1"]), st.sampled_from([1, 3, 8, 16, 17, 4096]), st.integers(-2, 40))))
        return ["mk1", "M", key, draw(iexpr(1))]
    return draw(mexpr(0))


def expr_of(T, depth, helpers=()):
    return {"I": iexpr(depth, helpers), "F": fexpr(depth), "S": sexpr(depth), "A": aexpr(depth), "M": mexpr(depth)}[T]


ASSIGN_OPS = {"I": ["=", "+=", "-=", "*=", "/=", "%=", "&=", "|=", "^=", "<<=", ">>="], "F": ["=", "+=", "-=", "*=", "/="],
              "S": ["=", "+="], "A": ["=", "+=", "-="], "M": ["+=", "+=", "="]}
ASSIGNABLE = {"I": ["i0", "i1", "i2"], "F": ["f0"], "S": ["s0"], "A": ["a0"], "M": ["m0"]}


def cond_expr(depth, helpers=()):
    """conditions of if / while: integer expressions, and comparisons of a float with the integer constant 0 (rewritten by the compiler)"""
    fz = st.sampled_from([["bin", "I", "!=", var("F", "f0"), lit("I", 0)], ["bin", "I", "!=", lit("I", 0), var("F", "f0")],
                          ["bin", "I", "==", var("F", "f0"), lit("I", 0)], ["bin", "I", "!=", var("F", "x"), lit("I", 0)],
                          ["bin", "I", "!=", ["bin", "F", "-", var("F", "f0"), var("F", "f0")], lit("I", 0)]])
    # an integer local against a float local (the fused loop-test opcodes compare locals directly)
    lf = st.sampled_from([["bin", "I", "<", var("I", "i1"), var("F", "f0")], ["bin", "I", "<", var("F", "f0"), var("I", "i1")],
                          ["bin", "I", "<", var("I", "a"), var("F", "x")], ["bin", "I", "<", var("I", "i1"), var("F", "x")]])
    return st.one_of(iexpr(depth, helpers), iexpr(depth, helpers), iexpr(depth, helpers), fz, lf)


@st.composite
def stmt(draw, depth, ctx):
    """ctx: dict(in_loop, in_switch, loopvars free list, helpers)"""
    k = draw(st.integers(0, 15))
    if k == 15 and ctx["loopvars"] and depth > 0 and not ctx["in_switch"]:
        # sweep: a loop takes the subject through every label of a sparse / range table in turn; each arm adds its own weight
        v = ctx["loopvars"][0]
        vals = sorted(set(draw(st.lists(st.integers(-40, 90), min_size=2, max_size=20))))
        labels, i = [], 0
        while i < len(vals):
            if i + 1 < len(vals) and draw(st.integers(0, 3)) == 0:
                labels.append(["range", vals[i], vals[i + 1]]); i += 2
            else:
                labels.append(["case", vals[i]]); i += 1
        arms = [[[lab], [["assign", ["v", "I", "i1"], "+=", lit("I", 3 + 7 * n)]]] for n, lab in enumerate(labels)]
        hasdef = draw(st.booleans())
        if hasdef:
            arms.append([[["default"]], [["assign", ["v", "I", "i2"], "+=", lit("I", 1)]]])
        sw = ["switch", ["idx", "I", lit("A", vals), var("I", v)], arms, hasdef]
        return ["for", v, lit("I", 0), lit("I", len(vals)), [sw]]
    if k == 14 and ctx["loopvars"] and depth > 0:
        # grow m0 pair by pair through '+=' (sibling spellings: m0 = m0 + ..., and the loop forms), crossing the hash-table growth points
        v = ctx["loopvars"][0]
        key = ["bin", "I", "+", ["bin", "I", "*", var("I", v), lit("I", draw(st.sampled_from([1, 1, 3, 8, 16, 17, 4096])))], lit("I", draw(st.integers(-2, 40)))]
        body = [["assign", ["v", "M", "m0"], "+=", ["mk1", "M", key, draw(iexpr(1))]]]
        if draw(st.booleans()):
            body.append(["assign", ["v", "I", "i1"], "+=", ["midx", "I", var("M", "m0"), key]])
        return ["for", v, lit("I", draw(st.integers(-2, 2))), lit("I", draw(st.sampled_from([5, 8, 13, 20, 40]))), body]
    if k <= 3 or depth <= 0:
        T = draw(st.sampled_from(["I", "I", "I", "F", "S", "A", "M"]))
        tk = draw(st.integers(0, 5))
        if tk == 0 and T == "I":
            target = ["elem", "a0", draw(rexpr())]
        elif tk == 1 and T == "I":
            target = ["melem", "m0", draw(iexpr(1))]
        else:
            target = ["v", T, draw(st.sampled_from(ASSIGNABLE[T]))]
        op = draw(st.sampled_from(ASSIGN_OPS[T]))
        if op in ("<<=", ">>="):
            e = ["bin", "I", "&", draw(iexpr(1)), lit("I", 63)]
        elif T == "F" and op != "=" and draw(st.booleans()):
            e = draw(iexpr(1))           # float op= int: the promotion path
        else:
            e = draw(expr_of(T, min(depth, 2), ctx["helpers"]))
        if T == "M" and op == "=":
            e = ["bin", "M", "+", e, lit("M", [])]    # mappings are shared by reference: assign a fresh copy
        if T == "A" and op == "=":
            e = ["bin", "A", "+", e, lit("A", [])]    # arrays are shared by reference: keep the read-only inputs unaliased
        return ["assign", target, op, e]
    if k == 4:
        tk = draw(st.integers(0, 3))
        if tk == 0:
            target = ["elem", "a0", draw(rexpr())]
        elif tk == 1:
            target = ["v", "F", "f0"]
        else:
            target = ["v", "I", draw(st.sampled_from(ASSIGNABLE["I"]))]
        return ["incdec", target, draw(st.sampled_from(["++x", "x++", "--x", "x--"]))]
    if k == 5:
        then = draw(block(depth - 1, ctx)) or [["assign", ["v", "I", "i1"], "+=", lit("I", 1)]]
        return ["if", draw(cond_expr(2, ctx["helpers"])), then, draw(block(depth - 1, ctx))]
    if k == 6 and ctx["loopvars"]:
        v = ctx["loopvars"][0]
        sub = dict(ctx, in_loop=True, loopvars=ctx["loopvars"][1:])
        if draw(st.integers(0, 7)) == 0:
            # bounds around the 32-bit edges: a few iterations that start below and end above a power of two
            base = draw(st.sampled_from([1 << 31, 1 << 32, -(1 << 31), (1 << 32) + (1 << 31), 1 << 40]))
            d0, d1 = draw(st.integers(-4, 1)), draw(st.integers(0, 5))
            return ["for", v, lit("I", base + d0), lit("I", base + d1), draw(block(depth - 1, sub))]
        lo = draw(st.one_of(st.integers(-2, 3).map(lambda x: lit("I", x)), st.just(["bin", "I", "&", var("I", "a"), lit("I", 3)])))
        hi = draw(st.one_of(st.integers(0, 9).map(lambda x: lit("I", x)), st.just(["bin", "I", "&", var("I", "b"), lit("I", 7)]),
                            st.just(["sizeof", "I", var("A", "a0")]), st.just(var("F", "f0")), st.just(var("F", "x")), st.just(var("I", "i1"))))
        body = draw(block(depth - 1, sub))
        if hi[0] == "var" and hi[1] == "F":
            # a float local as the bound (compared with the integer loop variable by the fused loop test): only when it is small
            return ["if", ["bin", "I", "<", hi, lit("F", 20.0)], [["for", v, lo, hi, body]], []]
        if hi[0] == "var":
            return ["if", ["bin", "I", "<", hi, lit("I", 20)], [["for", v, lo, hi, body]], []]
        return ["for", v, lo, hi, body]
    if k == 7 and ctx["guards"]:
        g = ctx["guards"][0]
        sub = dict(ctx, in_loop=True, guards=ctx["guards"][1:])
        return [draw(st.sampled_from(["while", "dowhile"])), draw(cond_expr(2)), draw(block(depth - 1, sub)), g]
    if k == 8 and ctx["guards"] and not ctx.get("wd_used"):
        g = ctx["guards"][0]
        sub = dict(ctx, in_loop=True, guards=ctx["guards"][1:], wd_used=True)
        return ["whiledec", "w0", draw(block(depth - 1, sub)), g]
    if k == 9:
        sT = draw(st.sampled_from(["I", "I", "S"]))
        sub = dict(ctx, in_switch=True, in_loop=False)
        if sT == "I":
            style = draw(st.sampled_from(["dense", "sparse", "ranges"]))
            if style == "dense":
                base = draw(st.integers(-3, 5))
                vals = [base + i for i in range(draw(st.integers(1, 8)))]
            elif style == "sparse":
                vals = sorted(set(draw(st.lists(st.one_of(st.integers(-50, 50), st.sampled_from(IBOUND)), min_size=1, max_size=16))))
            else:
                vals = sorted(set(draw(st.lists(st.integers(-20, 60), min_size=2, max_size=24))))
            # the subject is often exactly one of the labels, computed at run time (every entry of the searched table has to be found)
            e = draw(st.one_of(iexpr(2), st.just(["bin", "I", "&", var("I", "a"), lit("I", 15)]), st.just(var("I", "i0")),
                               st.sampled_from(vals).map(lambda v: ["bin", "I", "+", lit("I", v), ["bin", "I", "&", var("I", "a"), lit("I", 0)]]),
                               st.sampled_from(vals).map(lambda v: ["bin", "I", "+", lit("I", v), ["bin", "I", "&", var("I", "b"), lit("I", 0)]])))
            labels = []
            i = 0
            while i < len(vals):
                if style == "ranges" and i + 1 < len(vals) and draw(st.booleans()):
                    labels.append(["range", vals[i], vals[i + 1]]); i += 2
                else:
                    labels.append(["case", vals[i]]); i += 1
        else:
            vals = sorted(set(draw(st.lists(st.sampled_from(SBOUND + ["b", "ab", "hello", "m" * 120, "k" * 230, "q" * 180]), min_size=1, max_size=8))))
            # the subject is often one of the labels (the table is searched by string address: every label has to be found)
            e = draw(st.one_of(sexpr(1), st.sampled_from(vals).map(lambda v: lit("S", v)), st.sampled_from(vals).map(lambda v: ["bin", "S", "+", lit("S", v[:1]), lit("S", v[1:])])))
            labels = [["case", v] for v in vals]
        hasdef = draw(st.booleans())
        if hasdef:
            labels.insert(draw(st.integers(0, len(labels))), ["default"])
        arms = []
        i = 0
        while i < len(labels):
            n = draw(st.integers(1, 2))
            arms.append([labels[i:i + n], draw(block(depth - 1, sub))])
            i += n
        return ["switch", e, arms, hasdef]
    if k == 10 and ctx["loopvars"]:
        v = ctx["loopvars"][0]
        sub = dict(ctx, in_loop=True, loopvars=ctx["loopvars"][1:])
        return ["foreach", v, draw(st.one_of(aexpr(1), sexpr(1))), draw(block(depth - 1, sub))]
    if k == 11 and ctx["in_loop"] and not ctx["in_switch"]:
        return ["if", draw(iexpr(1)), [[draw(st.sampled_from(["break", "continue"]))]], []]
    if k == 12 and depth >= 2:
        return ["if", draw(iexpr(1)), [["return", draw(iexpr(1))]], []]
    return ["assign", ["v", "I", draw(st.sampled_from(ASSIGNABLE["I"]))], draw(st.sampled_from(ASSIGN_OPS["I"][:5])), draw(iexpr(2, ctx["helpers"]))]


@st.composite
def block(draw, depth, ctx):
    n = draw(st.integers(0, 3 if depth > 0 else 2))
    return [draw(stmt(depth, ctx)) for _ in range(n)]


@st.composite
def programs(draw):
    nh = draw(st.integers(0, 2))
    helpers = {}
    for i in range(nh):
        # pure helper: int hN(int p, int q) { return <expr over p, q>; }
        body = ["bin", "I", draw(st.sampled_from(["+", "^", "-"])), ["bin", "I", "^", var("I", "p"), var("I", "q")], draw(hexpr(2))]
        helpers["h%d" % i] = body
    inputs = dict(a=draw(ints), b=draw(ints), x=draw(floats), s=draw(strings), arr=draw(arrays))
    inits = dict(i0=draw(ints), i1=draw(small_int), i2=draw(ints), f0=draw(floats), s0=draw(strings), w0=draw(st.one_of(st.integers(0, 12), st.sampled_from([4294967296, 4294967297, -1, 8589934592, 65536 * 65536 * 4]))),
                 m0=[[k, v] for k, v in draw(st.dictionaries(st.integers(-3, 12), st.integers(-100, 100), max_size=12)).items()])
    ctx = dict(in_loop=False, in_switch=False, loopvars=["j0", "j1"], guards=["q0", "q1"], helpers=tuple(helpers))
    n = draw(st.integers(1, 6))
    body = [draw(stmt(3, ctx)) for _ in range(n)]
    ret = draw(iexpr(2, tuple(helpers)))
    return dict(helpers=helpers, inputs=inputs, inits=inits, body=body, ret=ret)


@st.composite
def hexpr(draw, depth):
    if depth <= 0:
        return draw(st.one_of(st.just(var("I", "p")), st.just(var("I", "q")), st.integers(-3, 9).map(lambda v: lit("I", v))))
    op = draw(st.sampled_from(["+", "-", "*", "&", "|", "^", "<", "=="]))
    return ["bin", "I", op, draw(hexpr(depth - 1)), draw(hexpr(depth - 1))]


# ------------------------------------------------------------------ rendering
def rlit(T, v):
    if T == "I":
        if v == -(1 << 63):
            return "(-9223372036854775807-1)"
        return "(%d)" % v if v < 0 else "%d" % v
    if T == "F":
        t = "%.17g" % v
        if "." not in t and "e" not in t and "n" not in t:
            t += ".0"
        elif "." not in t and "e" in t:
            t = t.replace("e", ".0e")
        return "(%s)" % t if v < 0 or t.startswith("-") else t
    if T == "S":
        return lpc_str(v)
    if T == "A":
        return "({ " + ", ".join(rlit("I", x) for x in v) + " })"
    if T == "M":
        return "([ " + ", ".join("%s : %s" % (rlit("I", k), rlit("I", x)) for k, x in v) + " ])"
    raise AssertionError(T)


class Render:
    def __init__(self, prog, sp):
        self.p, self.sp = prog, sp
        self.tmpn = 0

    def name(self, n):
        if self.sp["inputs"] == "literals" and n in self.p["inputs"]:
            T = dict((nn, t) for t, nn in PARAMS)[n]
            return rlit(T, self.p["inputs"][n])
        if self.sp["inputs"] == "macro" and n in self.p["inputs"]:
            return "IN_" + n.upper()
        if self.sp["vars"] == "global" and any(n == ln for _, ln in LOCALS):
            return "g_" + n
        return n

    def e(self, x):
        k = x[0]
        if k == "lit":
            return rlit(x[1], x[2])
        if k == "var":
            return self.name(x[2])
        if k == "bin":
            return "(%s %s %s)" % (self.e(x[3]), x[2], self.e(x[4]))
        if k == "un":
            return "(%s%s)" % (x[2], self.e(x[3]))
        if k == "cond":
            return "(%s ? %s : %s)" % (self.e(x[2]), self.e(x[3]), self.e(x[4]))
        if k == "idx":
            return "%s[%s]" % (self.e(x[2]), self.e(x[3]))
        if k == "ridx":
            return "%s[<%s]" % (self.e(x[2]), self.e(x[3]))
        if k == "midx":
            return "%s[%s]" % (self.e(x[2]), self.e(x[3]))
        if k == "rng":
            return "%s[%s..%s]" % (self.e(x[2]), self.e(x[3]), self.e(x[4]))
        if k == "sizeof":
            return "sizeof(%s)" % self.e(x[2])
        if k == "mk1":
            return "([ %s : %s ])" % (self.e(x[2]), self.e(x[3]))
        if k == "arr":
            return "({ " + ", ".join(self.e(y) for y in x[2]) + " })"
        if k == "tofloat":
            return "to_float(%s)" % self.e(x[2])
        if k == "call":
            args = ", ".join(self.e(y) for y in x[3])
            c = self.sp["call"]
            if c == "macro":
                return "%s(%s)" % (x[2].upper(), args)
            if c == "funptr":
                return "evaluate((: %s :), %s)" % (x[2], args)
            if c == "expr_fp":
                return "evaluate((: %s($1, $2) :), %s)" % (x[2], args)
            if c == "call_other":
                return 'call_other(this_object(), "%s", %s)' % (x[2], args)
            return "%s(%s)" % (x[2], args)
        raise AssertionError(x)

    def target(self, t):
        if t[0] == "v":
            return self.name(t[2])
        return "%s[%s]" % (self.name(t[1]), self.e(t[2]))

    def block(self, stmts, ind):
        return "".join(self.s(x, ind) for x in stmts)

    def s(self, x, ind):
        pad = "  " * ind
        k = x[0]
        if k == "assign":
            tg = self.target(x[1])
            if x[2] == "=" or self.sp["compound"]:
                return "%s%s %s %s;\n" % (pad, tg, x[2], self.e(x[3]))
            return "%s%s = %s %s (%s);\n" % (pad, tg, tg, x[2][:-1], self.e(x[3]))
        if k == "incdec":
            tg = self.target(x[1])
            if self.sp["incdec"]:
                return pad + x[2].replace("x", tg) + ";\n"
            one = "1"
            return "%s%s = %s %s %s;\n" % (pad, tg, tg, "+" if "+" in x[2] else "-", one)
        if k == "if":
            out = "%sif (%s) {\n%s%s}" % (pad, self.e(x[1]), self.block(x[2], ind + 1), pad)
            if x[3]:
                out += " else {\n%s%s}" % (self.block(x[3], ind + 1), pad)
            return out + "\n"
        if k == "for":
            v = self.name(x[1])
            if self.sp["loops"] == "native" or has_continue(x[4]):
                return "%sfor (%s = %s; %s < %s; %s++) {\n%s%s}\n" % (pad, v, self.e(x[2]), v, self.e(x[3]), v, self.block(x[4], ind + 1), pad)
            return "%s%s = %s;\n%swhile (%s < %s) {\n%s%s  %s = %s + 1;\n%s}\n" % (pad, v, self.e(x[2]), pad, v, self.e(x[3]),
                                                                                   self.block(x[4], ind + 1), pad, v, v, pad)
        if k in ("while", "dowhile", "whiledec"):
            if k == "whiledec":
                cond, body, g = "%s--" % self.name(x[1]), x[2], self.name(x[3])
            else:
                cond, body, g = self.e(x[1]), x[2], self.name(x[3])
            guard = "%s  if (++%s > 40) break;\n" % (pad, g) if self.sp["incdec"] else "%s  %s = %s + 1; if (%s > 40) break;\n" % (pad, g, g, g)
            if k == "dowhile":
                return "%sdo {\n%s%s%s} while (%s);\n" % (pad, guard, self.block(body, ind + 1), pad, cond)
            return "%swhile (%s) {\n%s%s%s}\n" % (pad, cond, guard, self.block(body, ind + 1), pad)
        if k == "switch":
            if self.sp["switch"] == "switch":
                out = "%sswitch (%s) {\n" % (pad, self.e(x[1]))
                for labels, body in x[2]:
                    for lab in labels:
                        if lab[0] == "default":
                            out += pad + "default:\n"
                        elif lab[0] == "range":
                            out += "%scase %s..%s:\n" % (pad, rlit("I", lab[1]), rlit("I", lab[2]))
                        else:
                            out += "%scase %s:\n" % (pad, rlit("S" if isinstance(lab[1], str) else "I", lab[1]))
                    out += self.block(body, ind + 1) + pad + "  break;\n"
                return out + pad + "}\n"
            self.tmpn += 1
            t = "sw%d" % self.tmpn
            out = "%s{ mixed %s = %s;\n" % (pad, t, self.e(x[1]))
            first = True
            default_body = None
            for labels, body in x[2]:
                conds = []
                for lab in labels:
                    if lab[0] == "default":
                        default_body = body
                    elif lab[0] == "range":
                        conds.append("(intp(%s) && %s >= %s && %s <= %s)" % (t, t, rlit("I", lab[1]), t, rlit("I", lab[2])))
                    elif isinstance(lab[1], str):
                        conds.append("(stringp(%s) && %s == %s)" % (t, t, rlit("S", lab[1])))
                    else:
                        conds.append("(intp(%s) && %s == %s)" % (t, t, rlit("I", lab[1])))
                if default_body is body and not conds:
                    continue
                out += "%s%sif (%s) {\n%s%s}" % (pad if first else " ", "" if first else "else ", " || ".join(conds), self.block(body, ind + 1), pad)
                first = False
            if default_body is not None:
                # a default arm shared with case labels is reached by those labels too (handled above); here: no label matched
                out += "%s {\n%s%s}" % (" else" if not first else pad + "if (1)", self.block(default_body, ind + 1), pad)
            return out + "\n" + pad + "}\n"
        if k == "foreach":
            v = self.name(x[1])
            if self.sp["loops"] == "native" or has_continue(x[3]) or self.sp["vars"] == "global":
                if self.sp["vars"] == "global":
                    # foreach needs a local iteration variable; copy it to the global at the top of the body
                    return "%sforeach (mixed fe_%s in %s) {\n%s  %s = fe_%s;\n%s%s}\n" % (pad, x[1], self.e(x[2]), pad, v, x[1], self.block(x[3], ind + 1), pad)
                return "%sforeach (%s in %s) {\n%s%s}\n" % (pad, v, self.e(x[2]), self.block(x[3], ind + 1), pad)
            self.tmpn += 1
            t = "fe%d" % self.tmpn
            return ("%s{ mixed %s_c = %s; int %s_i;\n%s  for (%s_i = 0; %s_i < sizeof(%s_c); %s_i++) {\n%s    %s = %s_c[%s_i];\n%s%s  }\n%s}\n" %
                    (pad, t, self.e(x[2]), t, pad, t, t, t, t, pad, v, t, t, self.block(x[3], ind + 2), pad, pad))
        if k == "break":
            return pad + "break;\n"
        if k == "continue":
            return pad + "continue;\n"
        if k == "return":
            return "%sreturn ({ \"early\", %s });\n" % (pad, self.e(x[1]))
        raise AssertionError(x)

    def function(self, fname):
        p, sp = self.p, self.sp
        mixed = sp["decl"] == "mixed"
        ty = (lambda T: "mixed") if mixed else (lambda T: TYPENAME[T])
        out = ""
        if sp["inputs"] == "args":
            out += "mixed %s(%s) {\n" % (fname, ", ".join("%s %s" % (ty(T), n) for T, n in PARAMS))
        else:
            out += "mixed %s() {\n" % fname
        initv = dict(p["inits"])
        initv.update(a0=None, j0=0, j1=0, q0=0, q1=0)
        for T, n in LOCALS:
            if n == "a0":
                init = "%s + ({ })" % self.name("arr")
            elif n == "m0":
                init = rlit("M", initv[n])
            else:
                init = rlit(T, initv[n])
            if sp["vars"] == "global":
                out += "  g_%s = %s;\n" % (n, init)
            else:
                out += "  %s %s = %s;\n" % (ty(T), n, init)
        out += self.block(p["body"], 1)
        # lk(): every key of m0 looked up again by index (a key stored in the wrong bucket is listed but not found)
        out += "  return ({ %s, lk(%s), %s });\n}\n" % (", ".join(self.name(n) for _, n in LOCALS if n[0] not in "jq"), self.name("m0"), self.e(p["ret"]))
        return out


def has_continue(stmts):
    for s in stmts:
        if s[0] == "continue":
            return True
        if s[0] == "if" and (has_continue(s[2]) or has_continue(s[3])):
            return True
        if s[0] == "switch" and any(has_continue(b) for _, b in s[2]):
            return True
    return False


BASE = dict(inputs="args", compound=True, incdec=True, switch="switch", loops="native", vars="local", decl="typed", call="direct")
VARIANTS = [("base", {}), ("literals", dict(inputs="literals")), ("macro", dict(inputs="macro", call="macro")), ("expanded", dict(compound=False, incdec=False)),
            ("ifchain", dict(switch="ifchain")), ("while", dict(loops="while")), ("global", dict(vars="global")), ("mixed", dict(decl="mixed")),
            ("funptr", dict(call="funptr")), ("call_other", dict(call="call_other")), ("expr_fp", dict(call="expr_fp"))]


def render_program(p):
    """three source files: run-time variants, inputs-as-literals, inputs-and-helpers-as-macros (a compile-time
    rejection such as 'division by constant zero' must not take the other spellings down with it)"""
    head = ["// C03 generated program",
            "mixed lk(mapping m) { mixed *k = keys(m); mixed *r = ({ }); int i; for (i = 0; i < sizeof(k); i++) r += ({ m[k[i]] }); return sort_array(r, 1); }"]
    for T, n in PARAMS:
        head.append("#define IN_%s %s" % (n.upper(), rlit(T, p["inputs"][n])))
    for T, n in LOCALS:
        head.append("mixed g_%s;" % n)
    for h, body in sorted(p["helpers"].items()):
        r = Render(p, dict(BASE))
        head.append("int %s(int p, int q) { return %s; }" % (h, r.e(body)))
        head.append("#define %s(p, q) (%s)" % (h.upper(), macro_body(body)))
    files = {"r": list(head), "l": list(head), "m": list(head)}
    names = []
    for vn, delta in VARIANTS:
        if vn in ("funptr", "call_other", "expr_fp") and not p["helpers"]:
            continue
        sp = dict(BASE); sp.update(delta)
        f = "l" if vn == "literals" else ("m" if vn == "macro" else "r")
        files[f].append(Render(p, sp).function("v_" + vn))
        names.append((vn, sp, f))
    files["r"].append("mixed run_args(string fn) { return call_other(this_object(), fn, IN_A, IN_B, IN_X, IN_S, IN_ARR); }")
    return dict((k, "\n".join(v) + "\n") for k, v in files.items()), names


def macro_body(x):
    if x[0] == "lit":
        return rlit("I", x[2])
    if x[0] == "var":
        return "(%s)" % x[2]
    return "(%s %s %s)" % (macro_body(x[3]), x[2], macro_body(x[4]))


# ------------------------------------------------------------------ oracle
def err_class(msg):
    m = msg.lower()
    if ("too long evaluation" in m or "too deep recursion" in m or "stack overflow" in m or "too large" in m or "too long" in m
            or "maximum array size" in m or "out of memory" in m or "illegal array size" in m):
        return "limit"
    if "division by" in m:
        return "div0"
    if "modul" in m:
        return "mod0"
    if "out of bounds" in m or "index out of" in m:
        return "bounds"
    return "other:" + msg.strip()[:70]


def reference(p):
    funcs = {h: ([("I", "p"), ("I", "q")], [["return", body]]) for h, body in p["helpers"].items()}
    ref = refeval.Ref(funcs)
    env = dict(p["inputs"])
    env["arr"] = list(env["arr"])
    for T, n in LOCALS:
        if n == "a0":
            env[n] = list(p["inputs"]["arr"])
        elif n == "m0":
            env[n] = {k: v for k, v in p["inits"]["m0"]}
        elif n in p["inits"]:
            env[n] = p["inits"][n]
        else:
            env[n] = 0
    try:
        try:
            ref.run(p["body"], env)
        except refeval.Return as r:
            return ("val", refeval.canon(["early", r.v]))
        last = ref.ev(p["ret"], env)
        return ("val", refeval.canon([env[n] for _, n in LOCALS if n[0] not in "jq"] + [sorted(env["m0"].values())] + [last]))
    except refeval.LpcError as e:
        return ("err", e.cls)
    except refeval.Unspecified as e:
        return ("unspecified", str(e))
    except (RecursionError, OverflowError, ZeroDivisionError) as e:
        return ("unspecified", type(e).__name__)


def count_nodes(x):
    if isinstance(x, list):
        return (1 if x and x[0] in ("bin", "un", "cond", "idx", "ridx", "rng") else 0) + sum(count_nodes(y) for y in x)
    return 0


def features(p):
    f = set()

    def walk(x):
        if isinstance(x, list):
            if x and isinstance(x[0], str):
                if x[0] in ("for", "while", "dowhile", "whiledec", "foreach"):
                    f.add("loop"); f.add("loop:" + x[0])
                elif x[0] == "switch":
                    f.add("switch")
                elif x[0] == "call":
                    f.add("call")
                elif x[0] == "assign" and x[2] != "=":
                    f.add("compound"); f.add("op" + x[2] + ":" + x[1][0])
                elif x[0] == "incdec":
                    f.add("incdec:" + x[1][0])
            for y in x:
                walk(y)
    walk(p["body"]); walk(p["ret"])
    return f


_workers = {}


def get_worker(ctx):
    w = _workers.get(ctx.rundir)
    if w is None:
        w = Worker(ctx.scratch("w"), timeout=10, conf={"MaxLocalVariables": "120", "MaxEvaluationCost": "5000000"})
        _workers[ctx.rundir] = w
    return w


def close_workers(ctx):
    w = _workers.pop(ctx.rundir, None)
    if w:
        w.close()


def compile_class(errs):
    t = " ".join(errs).lower()
    if "division by" in t or "divide by" in t:
        return "div0"
    if "modul" in t:
        return "mod0"
    if "illegal index to array constant" in t or "out of bounds" in t:
        return "bounds"
    return "compile:" + t[:80]


def evaluate_case(ctx, w, p):
    files, names = render_program(p)
    steps, where, loadstep = [], {}, {}
    for f in ("r", "l", "m"):
        loadstep[f] = len(steps)
        w.write("t/c03%s.c" % f, files[f])      # real callers compile from files (the pre_text extension is a test-only path)
        steps.append(["load", "t/c03%s.c" % f])
        steps.append(["call", "/master", "verif_take_compile_errors"])
        for vn, sp, ff in names:
            if ff != f:
                continue
            where[vn] = len(steps)
            if sp["inputs"] == "args":
                steps.append(["call", "t/c03%s" % f, "run_args", arg("v_" + vn)])
            else:
                steps.append(["call", "t/c03%s" % f, "v_" + vn])
    res = w.run(steps)
    src = "\n".join("// ---- file %s\n%s" % (k, v) for k, v in sorted(files.items()))
    if res.timed_out:
        ctx.inconclusive["timeout"] += 1
        return None, None
    cr = res.crash()
    if cr:
        ctx.inconclusive["crash-belongs-to-C01:" + cr[1][:50]] += 1
        return None, None
    outs = {}
    for vn, sp, f in names:
        ld = res.step(loadstep[f])
        if not ld or ld.get("st") != "ok":
            ce = res.step(loadstep[f] + 1)
            errs = [x for x in unjson(ce["v"])[1]] if ce and ce.get("st") == "val" else []
            cls = compile_class(errs)
            if cls.startswith("compile:"):
                return ("generated-program-rejected", "the typed grammar only emits valid LPC; compile failed: %r\n%s" % (errs, files[f])), None
            # rejecting a constant division by zero at compile time is accepted behaviour (nothing runs at all):
            # the case is discarded and counted, because the reference would run the statements before it
            ctx.excluded["compile-time-constant-" + cls] += 1
            return None, None
        r = res.step(where[vn])
        if not r:
            outs[vn] = ("missing", None)
        elif r["st"] == "val":
            outs[vn] = ("val", refeval.canon_impl(unjson(r["v"])))
        elif r["st"] == "err":
            outs[vn] = ("err", err_class(r.get("msg", "")))
        else:
            outs[vn] = (r["st"], None)
    if any(o == ("err", "limit") for o in outs.values()):
        # a configured resource limit (evaluation cost, sizes) struck in some spelling: spellings differ in instruction
        # counts, so this is not a semantic disagreement; limits are C04's subject
        ctx.excluded["resource-limit-hit"] += 1
        return None, None
    base = outs["base"]
    # Oracle B: sibling spellings agree
    for vn, o in outs.items():
        if o != base and o[0] == "err" and base[0] == "err":
            ctx.classes["error-class-differs-between-spellings(evaluation order)"] += 1
            continue
        if o != base:
            return ("sibling-disagree:base-vs-%s" % vn + ":" + disagreement_atoms(p, vn),
                    "first difference base vs %s: %s\n\n%s" % (vn, first_diff(base, o), src)), outs
    # Oracle A: reference
    ref = reference(p)
    if ref[0] == "unspecified":
        ctx.excluded["reference-unspecified:" + ref[1][:40]] += 1
        return None, outs
    if ref != base and ref[0] == "err" and base[0] == "err":
        ctx.classes["error-class-differs-from-reference(evaluation order)"] += 1
        return None, outs
    if ref != base:
        return ("reference-disagree:" + ref_atoms(p, ref, base), "first difference reference vs implementation (base): %s\n\n%s" % (first_diff(ref, base), src)), outs
    return None, outs


def first_diff(a, b, path="$"):
    """first position where two canonical outcomes differ, abbreviated"""
    if type(a) != type(b):
        return "%s: %.200r vs %.200r" % (path, a, b)
    if path == "$" and isinstance(a, tuple) and a[0] != b[0]:
        return "outcome kinds differ: %.160r vs %.160r" % (a, b)
    if isinstance(a, tuple) and len(a) == 2 and isinstance(a[1], list) and isinstance(b[1], list) and a[0] == b[0]:
        if len(a[1]) != len(b[1]):
            return "%s: sizes %d vs %d (%.120r ... vs %.120r ...)" % (path, len(a[1]), len(b[1]), a[1][:12], b[1][:12])
        for i, (x, y) in enumerate(zip(a[1], b[1])):
            if x != y:
                return first_diff(x, y, "%s[%d]" % (path, i))
        return None
    if isinstance(a, tuple) and len(a) == len(b):
        for i, (x, y) in enumerate(zip(a, b)):
            if x != y:
                return first_diff(x, y, "%s.%d" % (path, i))
        return None
    return None if a == b else "%s: %.200r vs %.200r" % (path, a, b)


def disagreement_atoms(p, vn):
    f = sorted(x for x in features(p) if x.startswith("op") or x.startswith("incdec") or x.startswith("loop:"))
    return ",".join(f)[:80]


def ref_atoms(p, ref, base):
    f = sorted(x for x in features(p) if x.startswith("op") or x.startswith("incdec") or x.startswith("loop:"))
    return "%s-vs-%s:" % (ref[0], base[0]) + ",".join(f)[:80]


def check(ctx, w, p):
    f, outs = evaluate_case(ctx, w, p)
    if f:
        ctx.evaluations += 1
        ctx.fail(f[0], p, f[1])
        return
    if outs is None:
        ctx.case_done(None, ["not-executed"])
        return
    feats = features(p)
    nontrivial = count_nodes([p["body"], p["ret"]]) >= 3 and bool(feats & {"loop", "switch", "call", "compound"})
    cl = ["outcome:" + outs["base"][0]] + ["has:" + x for x in feats if ":" not in x] + [x for x in feats if x.startswith("loop:")]
    ctx.case_done(runner.khash([p["body"], p["ret"], p["helpers"]]) if nontrivial else None, cl,
                  sample=Render(p, dict(BASE)).function("v_base") if len(ctx.samples) < 2 else None)


def shard_main(ctx):
    from hypothesis import given
    n = {"quick": 800, "thorough": 25000}[ctx.tier]

    @given(programs())
    def test(p):
        check(ctx, get_worker(ctx), p)

    try:
        runner.run_hypothesis(ctx, test, n)
    finally:
        close_workers(ctx)


def replay(ctx, case):
    w = get_worker(ctx)
    try:
        f, _ = evaluate_case(ctx, w, case)
        return f
    finally:
        close_workers(ctx)
