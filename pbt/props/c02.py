"""C02 - compiling any source text is safe and leaves the compiler reusable.

Case = 1-4 source files X1..Xk compiled one after another in one driver, followed by a fixed feature-rich probe
program P and a generated valid program Y (C03's grammar). The X come from five generators: random bytes,
token soup from an LPC token dictionary, token-level mutants of valid sources (delete / duplicate / swap /
truncate, unbalanced brackets, EOF inside strings, comments, directives, text blocks), extreme shapes (nesting of
blocks / parentheses / function literals past the limits, locals and arguments up to and past MaxLocalVariables,
hundreds of functions, big switches, lines around MAXLINE, macro expansion towards EXPANDMAX, include chains past
MAX_INCLUDE_DEPTH, #if nests), and preprocessor-state leavers (open #if, #define of probe-visible macros, unterminated
constructs, inherit of a not yet loaded parent inside #if). Oracle: (1) no sanitizer report / process death;
(2) every X either yields a program or at least one compile error is reported; (3) P and Y compiled after the X
have the same address-free program summary and give the same results when called as in a fresh driver."""
import os
import random

from hypothesis import strategies as st

from .. import runner
from ..worker import Worker, arg, unjson

LEVEL = "exploration"
BUILDS = [("asan", ["lpcvm"]), ("fuzz", ["fuzz_compile"])]      # built by the parent process before the shards start
RULE = ("cases = (a) sequences of 1-4 generated source texts (random bytes / token soup / token-level mutants of valid LPC / extreme shapes / "
        "preprocessor-state leavers, with a pool of include files) compiled in one driver, then a fixed probe program and a generated valid program "
        "(C03 grammar) compiled and called; the same two compiled and called in a fresh driver give the reference; (b) a coverage-guided campaign of the libFuzzer target fuzz_compile (bytes -> file [+ include file] -> load; then the probe "
        "must compile to the same summary), seeded with the valid corpus and an LPC dictionary, 8000 (quick, 4 shards) / 1.2 M (thorough, 16 shards) "
        "executions per shard. non-trivial = (a) at least one X reached "
        "the parser (it contains >= 8 tokens of the dictionary) and either failed to compile or used a directive, distinct = hash of the X texts; (b) inputs libFuzzer kept because they reached new coverage features")
ASSUMPTIONS = ["'the same program' is decided by an address-free summary (code size, sorted function table with types / flags / argument and local counts, "
               "variables with types, sorted string table, inherits, class count) plus the values returned by calling the program, not by an "
               "operand-resolving disassembly (function and string-switch tables are ordered by string address and legitimately differ)",
               "source size up to 64 KiB; files are compiled from the mudlib as every caller does"]
NONTRIVIAL_FLOOR = {"quick": 300, "thorough": 5000}

KEYWORDS = ["int", "string", "object", "mixed", "mapping", "float", "void", "function", "buffer", "class", "static", "private", "public", "nomask",
            "varargs", "protected", "inherit", "if", "else", "while", "for", "do", "switch", "case", "default", "break", "continue", "return",
            "foreach", "in", "catch", "new", "efun", "sscanf", "parse_command", "time_expression", "array", "ref"]
OPERATORS = ["+", "-", "*", "/", "%", "&", "|", "^", "~", "!", "<", ">", "<=", ">=", "==", "!=", "&&", "||", "<<", ">>", "=", "+=", "-=", "*=", "/=",
             "%=", "&=", "|=", "^=", "<<=", ">>=", "++", "--", "?", ":", "::", "->", "...", "..", "(", ")", "{", "}", "[", "]", "({", "})", "([", "])",
             "(:", ":)", ",", ";", "$1", "$2", "$(", "<", "#", "##", "@", "@@", "\\", "'", '"']
LITERALS = ["0", "1", "-1", "0x7fffffffffffffff", "9223372036854775808", "1.5", "1e400", ".5", "1.", "'a'", "'\\n'", "'\\''", "''", '"str"', '"a\\"b"',
            '"%s%n"', '"unterminated', "0b101", "017", "1e", "0x", "x", "y", "foo", "create", "this_object()", "sizeof", "write", "call_other", "M0", "M1", "FOO"]
DIRECTIVES = ["#define M0 1\n", "#define M1(a,b) ((a)+(b))\n", "#define M2(a) M2(a)\n", "#define FOO\n", "#undef M0\n", "#if 1\n", "#if 0\n", "#ifdef M0\n",
              "#ifndef M1\n", "#else\n", "#elif 1\n", "#endif\n", "#include \"inc_ok.h\"\n", "#include \"inc_openif.h\"\n", "#include \"inc_self.h\"\n",
              "#include <inc_ok.h>\n", "#include \"nonexistent.h\"\n", "#include \"../../etc/passwd\"\n", "#pragma strict_types\n", "#pragma save_binary\n",
              "#pragma warnings\n", "#pragma nonsense\n", "#pragma show_error_context\n", "#pragma show_error_context\n", "#pragma save_types\n", "#pragma optimize\n",
              "#pragma no_strict_types\n", "#pragma no_warnings\n", "#include \"..//../inc_ok.h\"\n", "#include \"./inc//inc_ok.h\"\n", "#line 100\n", "#echo hi\n", "#error stop\n", "#if @\n", "#if (1 /\n", "#if defined(M0) && M1(1,2)\n",
              "#define\n", "#define M3(\n", "#define M4(a,a) a\n", "#include\n", "#\n", "# 12 \"x.c\"\n", "#define M5 \\\n 1 + \\\n 2\n"]
TEXTBLOCKS = ["@END\nline one\nline two\nEND\n", "@@END\nl1\nl2\nEND\n", "@END\nnever closed\n", "@\n", "@END"]
TOKENS = KEYWORDS + OPERATORS + LITERALS

INCLUDES = {
    "inc_ok.h": "#define INC_OK 1\nint from_include() { return 7; }\n",
    "inc_openif.h": "#if 1\nint in_open_if() { return 1; }\n",
    "inc_self.h": "#include \"inc_self.h\"\n",
    "inc_chain0.h": "#include \"inc_chain1.h\"\n",
    "include/inc_sys.h": "#define INC_SYS 2\n",
}
INCLUDES["inc_big.h"] = "".join("int big_inc_%d(int a) { return a + %d; } // %s\n" % (i, i, "pad" * (i % 40)) for i in range(160))
INCLUDES["inc_big2.h"] = "#include \"inc_ok.h\"\n" + "".join("#define BIGDEF_%d %d\n" % (i, i) for i in range(400))
for _i in range(1, 40):
    INCLUDES["inc_chain%d.h" % _i] = ("#include \"inc_chain%d.h\"\n" % (_i + 1)) if _i < 39 else "int chain_end() { return 39; }\n"

# the probe: exercises most of the language; every macro name an X can define is tested, so leftovers become visible as functions
PROBE = r'''
#ifdef M0
int leak_M0() { return M0 + 0; }
#endif
#ifdef M1
int leak_M1() { return 1; }
#endif
#ifdef M2
int leak_M2() { return 1; }
#endif
#ifdef M3
int leak_M3() { return 1; }
#endif
#ifdef M4
int leak_M4() { return 1; }
#endif
#ifdef M5
int leak_M5() { return 1; }
#endif
#ifdef FOO
int leak_FOO() { return 1; }
#endif
#ifdef INC_OK
int leak_INC_OK() { return 1; }
#endif
#ifdef DEEP
int leak_DEEP() { return 1; }
#endif
#define SQ(x) ((x) * (x))
#define NAME probe
class Pt { int x; int y; string tag; }
int g_counter;
static mapping g_map = ([ "a": 1, "b": ({ 2, 3 }) ]);
private string *g_names = ({ "one", "two", "three" });
void create() { g_counter = SQ(3); }
int NAME(int a, int b) { return a * 10 + b; }
varargs mixed many(int a, string b, mixed *rest...) { return ({ a, b, sizeof(rest) }); }
string sw(mixed v) {
  switch (v) {
  case 0: return "zero";
  case 1..5: return "small";
  case 100: return "hundred";
  default: return "other";
  }
}
string ssw(string v) {
  switch (v) {
  case "a": return "str-a";
  case "bb": case "cc": return "str-bc";
  default: return "str-other";
  }
}
mixed loops(int n) {
  int i, s; mixed *acc = ({ });
  for (i = 0; i < n; i++) { if (i % 2) continue; s += i; }
  while (n-- > 0) { acc += ({ n }); if (sizeof(acc) > 5) break; }
  do { s++; } while (s < 3);
  foreach (string k, mixed v in g_map) { s += stringp(k); }
  foreach (int x in ({ 1, 2, 3 })) s += x;
  return ({ s, acc });
}
mixed funcs() {
  function f = (: $1 + $2 :);
  function g = (: probe, 4 :);
  function h = function(int a) { return evaluate(function(int b) { return b * 2; }, a) + 1; };
  class Pt p = new(class Pt);
  p->x = 3; p->tag = @END
text block line
END
;
  return ({ evaluate(f, 1, 2), evaluate(g, 5), evaluate(h, 5), p->x, p->tag, catch(error("e\n")), sprintf("%O", ({ 1.5, 'a', 0x10 })) });
}
mixed efuns_used() {
  function a = (: strlen :);
  function b = (: time :);
  function c = (: member_array :);
  return ({ evaluate(a, "four"), functionp(b), evaluate(c, 2, ({ 1, 2 })), sizeof(explode("a b c", " ")), this_object() == this_object(), random(1), intp(time()) });
}
mixed run_probe() { return ({ efuns_used(), g_counter, probe(1, 2), many(1, "b", 3, 4), sw(0), sw(3), ssw("a"), ssw("cc"), sw(100), loops(7), funcs(), sizeof(g_names) }); }
'''
PARENT = 'int parent_fn() { return 11; }\n'

VALID_SOURCES = None


def valid_sources():
    """corpus of valid LPC: the repository's example mudlib, the probe, and hand-written samples"""
    global VALID_SOURCES
    if VALID_SOURCES is None:
        out = [PROBE]
        root = os.path.join(os.environ.get("VERIF_REPO", "/repo"), "examples")
        for d, _, fs in os.walk(root):
            for f in sorted(fs):
                if f.endswith((".c", ".h")):
                    try:
                        t = open(os.path.join(d, f), errors="replace").read()
                    except OSError:
                        continue
                    if 0 < len(t) < 20000:
                        out.append(t)
        VALID_SOURCES = sorted(set(out))
    return VALID_SOURCES


def tokenize(src):
    """rough token split good enough for mutation: identifiers/numbers, strings, multi-char operators, single chars, whitespace kept"""
    import re
    return re.findall(r'"(?:\\.|[^"\\\n])*"|\'(?:\\.|[^\'\\\n])\'|[A-Za-z_][A-Za-z_0-9]*|\d+(?:\.\d+)?|\(\{|\}\)|\(\[|\]\)|\(:|:\)|<<=|>>=|\.\.\.|[-+*/%&|^<>=!]=|&&|\|\||\+\+|--|<<|>>|->|::|\.\.|\s+|.', src, re.S)


@st.composite
def x_random(draw):
    kind = draw(st.integers(0, 2))
    if kind == 0:
        return draw(st.binary(max_size=600)).decode("latin-1")
    if kind == 1:
        return draw(st.text(alphabet=st.characters(min_codepoint=1, max_codepoint=126), max_size=800))
    return draw(st.text(alphabet="(){}[];,\"'\\#@\n\t ae10:$<>=+-*/%&|!~?.", max_size=800))


@st.composite
def x_soup(draw):
    n = draw(st.integers(1, 200))
    parts = []
    for _ in range(n):
        k = draw(st.integers(0, 11))
        if k == 0:
            parts.append("\n" + draw(st.sampled_from(DIRECTIVES)))
        elif k == 1:
            parts.append(draw(st.sampled_from(TEXTBLOCKS)))
        elif k == 2:
            parts.append(draw(st.sampled_from(["/* c */", "// c\n", "/* open", "\n", "\\\n"])))
        else:
            parts.append(draw(st.sampled_from(TOKENS)))
    return " ".join(parts)


@st.composite
def x_mutant(draw):
    src = draw(st.sampled_from(valid_sources()))
    toks = tokenize(src)
    nm = draw(st.integers(1, 4))
    for _ in range(nm):
        if not toks:
            break
        i = draw(st.integers(0, len(toks) - 1))
        op = draw(st.sampled_from(["delete", "dup", "swap", "truncate", "insert", "openstr", "opencomment", "replace", "directive", "textblock", "bracket"]))
        if op == "delete":
            del toks[i]
        elif op == "dup":
            toks.insert(i, toks[i])
        elif op == "swap" and i + 1 < len(toks):
            toks[i], toks[i + 1] = toks[i + 1], toks[i]
        elif op == "truncate":
            toks = toks[:i]
        elif op == "insert":
            toks.insert(i, " " + draw(st.sampled_from(TOKENS)) + " ")
        elif op == "openstr":
            toks.insert(i, ' "never closed ')
        elif op == "opencomment":
            toks.insert(i, " /* never closed ")
        elif op == "replace":
            toks[i] = draw(st.sampled_from(TOKENS))
        elif op == "directive":
            toks.insert(i, "\n" + draw(st.sampled_from(DIRECTIVES)))
        elif op == "textblock":
            toks.insert(i, draw(st.sampled_from(TEXTBLOCKS)))
        else:
            toks.insert(i, draw(st.sampled_from(["(", ")", "{", "}", "[", "]", "({", "})", "([", "])", "(:", ":)"])))
    return "".join(toks)


@st.composite
def x_extreme(draw):
    k = draw(st.sampled_from(["blocks", "parens", "literals", "locals", "args", "functions", "globals", "switch", "strswitch", "longline", "macro_expand",
                              "macro_args", "chain", "ifnest", "biglines", "biglines", "include_big", "include_big", "strings", "bigarray", "elseif", "ternary", "bigstring", "classes", "nested_literal_locals", "globalinit", "globalinit", "longident", "longident", "manystrings", "manyfuncs", "nulstrings", "nulstrings"]))
    n = draw(st.sampled_from([1, 5, 9, 10, 11, 24, 25, 26, 30, 50, 64, 100, 250, 255, 256, 257, 500, 1000]))
    if k == "include_big":
        # text in front of and behind an #include of a file larger than a read chunk: the lexer has to move the includer's unread text
        pre = "".join("int pre_%d() { return %d; }\n" % (i, i) for i in range(draw(st.sampled_from([0, 1, 40, 90, 200]))))
        post = "".join("int post_%d() { return %d; } // %s\n" % (i, i, "x" * draw(st.sampled_from([0, 30, 200]))) for i in range(draw(st.sampled_from([1, 30, 60, 150, 400]))))
        inc = draw(st.sampled_from(['#include "inc_big.h"\n', '#include "inc_big2.h"\n', '#include "inc_big.h"\n#include "inc_big2.h"\n']))
        return pre + inc + post
    if k == "biglines":
        # a file several times the lexer's buffer, made of lines whose lengths straddle MAXLINE: refills happen with long unread remainders
        total = draw(st.sampled_from([9000, 12000, 21000, 40000, 64000]))
        lens = draw(st.lists(st.sampled_from([10, 200, 700, 1000, 1020, 1023, 1024, 1030, 1500, 2047, 2048, 3000, 4100]), min_size=1, max_size=8))
        style = draw(st.sampled_from(["comment", "string", "expr", "mixed"]))
        out, i, size = [], 0, 0
        while size < total:
            ln = lens[i % len(lens)]
            sty = style if style != "mixed" else ["comment", "string", "expr"][i % 3]
            if sty == "comment":
                line = "// " + "c" * ln
            elif sty == "string":
                line = "string s%d() { return \"" % i + "s" * ln + "\"; }"
            else:
                line = "int e%d() { return " % i + "1+" * (ln // 2) + "1; }"
            out.append(line)
            size += len(line) + 1
            i += 1
        return "\n".join(out) + "\n"
    if k == "blocks":
        return "void f() { " + "{ " * n + "int x; x = 1; " + "} " * n + "}\n"
    if k == "parens":
        return "int f() { return " + "(" * n + "1" + ")" * n + "; }\n"
    if k == "literals":
        n = min(n, 40)
        return "mixed f() { return " + "function() { return " * n + "1" + "; }" * n + "; }\n"
    if k == "locals":
        n = min(n, 300)
        return "int f() { " + "".join("int v%d = %d;\n" % (i, i) for i in range(n)) + " return v0; }\n"
    if k == "args":
        n = min(n, 300)
        return "int f(" + ", ".join("int a%d" % i for i in range(n)) + ") { return a0; }\nint g() { return f(" + ", ".join("1" for _ in range(n)) + "); }\n"
    if k == "functions":
        return "".join("int fn%d(int a) { return a + %d; }\n" % (i, i) for i in range(n))
    if k == "globals":
        return "".join("int gv%d = %d;\n" % (i, i) for i in range(n)) + "int f() { return gv0; }\n"
    if k == "switch":
        dense = draw(st.booleans())
        return "int f(int a) { switch (a) {\n" + "".join("case %d: return %d;\n" % (i if dense else i * 7919, i) for i in range(n)) + "default: return -1; } }\n"
    if k == "strswitch":
        return "int f(string a) { switch (a) {\n" + "".join('case "k%d": return %d;\n' % (i, i) for i in range(n)) + "} return -1; }\n"
    if k == "longline":
        ln = draw(st.integers(1024 - 8, 1024 + 8)) * draw(st.sampled_from([1, 1, 2, 4]))
        style = draw(st.sampled_from(["expr", "string", "ident", "comment", "define"]))
        if style == "expr":
            return "int f() { return " + ("1+" * (ln // 2)) + "1; }\n"
        if style == "string":
            return 'string f() { return "' + "s" * ln + '"; }\n'
        if style == "ident":
            return "int " + "i" * ln + ";\n"
        if style == "comment":
            return "/* " + "c" * ln + " */ int f() { return 1; }\n// " + "d" * ln + "\nint g() { return 2; }\n"
        return "#define LONG " + "1+" * (ln // 2) + "1\nint f() { return LONG; }\n"
    if k == "macro_expand":
        lv = min(n, 16)
        return "#define D0 1\n" + "".join("#define D%d D%d + D%d\n" % (i, i - 1, i - 1) for i in range(1, lv + 1)) + "int f() { return D%d; }\n" % lv
    if k == "macro_args" and draw(st.booleans()):
        # a call with more arguments than the macro has (and than any macro can have)
        m = draw(st.sampled_from([2, 24, 25, 26, 40, 200]))
        return "#define SQ(x) ((x) * (x))\n#define TWO(a, b) ((a) + (b))\nint f() { return SQ(" + ",".join("1" for _ in range(m)) + "); }\nint g() { return TWO(" + ",".join("" for _ in range(m)) + "); }\n"
    if k == "macro_args":
        m = min(n, 40)
        return "#define MA(" + ",".join("p%d" % i for i in range(m)) + ") (" + "+".join("p%d" % i for i in range(m)) + ")\nint f() { return MA(" + ",".join("1" for _ in range(m)) + "); }\n"
    if k == "chain":
        return '#include "inc_chain%d.h"\nint f() { return chain_end(); }\n' % max(0, 39 - min(n, 39))
    if k == "ifnest":
        n = min(n, 300)
        close = draw(st.integers(max(0, n - 2), n))
        return "#if 1\n" * n + "int f() { return 1; }\n" + "#endif\n" * close
    if k == "strings":
        return "string *f() { return ({ " + ", ".join('"s%d"' % i for i in range(n)) + " }); }\n"
    if k == "nulstrings":
        # adjacent string literals are joined on the lexer's scratchpad, which keeps a length byte per string: literals with a NUL in
        # them (raw byte, "\\0", "\\x00"), of lengths whose sums straddle 255 / 256
        parts = []
        for _ in range(draw(st.integers(2, 6))):
            ln = draw(st.sampled_from([0, 1, 5, 16, 60, 73, 100, 120, 180, 238, 239, 240, 250, 254]))
            ch = draw(st.sampled_from("abcxyz"))
            body = ch * ln
            if draw(st.integers(0, 2)) == 0 and ln:
                cut = draw(st.integers(0, ln))
                body = body[:cut] + draw(st.sampled_from(["\\0", "\\x00", "\\000", "\x00"])) + body[cut:]
            parts.append('"%s"' % body)
        sep = draw(st.sampled_from([" ", "\n  ", " + "]))
        return "string f() { return " + sep.join(parts) + "; }\nstring g() { return \"p\" \"q\" \"r\"; }\n"
    if k == "manystrings":
        # string numbers of a program are 16-bit signed: sources with just under / just over 32767 distinct string constants
        m = draw(st.sampled_from([32700, 32750, 32800, 33000, 40000]))
        return "mixed f() { return 0; }\n" + "".join("string *a%d = ({ %s });\n" % (j, ", ".join('"q%d_%d"' % (j, i) for i in range(50))) for j in range(m // 50))
    if k == "manyfuncs":
        m = draw(st.sampled_from([32760, 32766, 32767, 32768, 33000]))
        return "".join("int f%d() { return %d; }\n" % (i, i) for i in range(m))
    if k == "longident":
        # identifiers of 200-1000 characters where the compiler has something to say about them: its messages are composed in fixed buffers
        I = draw(st.sampled_from(["v", "Q", "_"])) * draw(st.sampled_from([200, 230, 236, 250, 255, 256, 257, 300, 600, 1000]))
        return draw(st.sampled_from([
            "int f() { return %s; }\n" % I,
            "int f() { return %s(1); }\n" % I,
            "int %s; string %s;\nint f() { return 1; }\n" % (I, I),
            "int f() { int %s; int %s; return 1; }\n" % (I, I),
            "class C { int a; }\nint f() { class C c = new(class C); return c->%s; }\n" % I,
            "int f() { class %s c; return 1; }\n" % I,
            "int %s(int a) { return 1; }\nstring %s(string b, int c) { return b; }\n" % (I, I),
            "#pragma strict_types\nint %s(int a);\nint g() { return %s(\"x\", 2, 3); }\nint %s(int a) { return a; }\n" % (I, I, I),
            "int f() { return ::%s(); }\n" % I,
            "int f() { return efun::%s(); }\n" % I,
            "int f(int %s, int %s) { return 1; }\n" % (I, I),
            "#ifdef %s\n#endif\n#undef %s\n#define %s(a,a) a\nint f() { return %s(1); }\n" % (I, I, I, I),
            "mixed f() { return (: %s :); }\nmixed g() { return (: %s, 1 :); }\n" % (I, I),
            "int f() { mapping m = ([]); return m->%s; }\n" % I,
            "#pragma strict_types\nint %s() { return 1; }\nint h() { string t; t = %s(); return 1; }\n" % (I, I),
            "int f() { string %s; %s = 1 + ({ }); %s(); return %s->%s; }\n" % (I, I, I, I, I),
            "inherit \"/t/%s\";\nint f() { return 1; }\n" % I[:240],
            "int f() { return call_other(this_object(), \"%s\"); }\nint g() { %s: return 1; }\n" % (I, I),
        ]))
    if k == "globalinit":
        # initialisers of globals are compiled into a block of their own, which is appended to the program in one piece: a table of
        # several thousand constants makes that one piece several times larger than everything compiled before it
        m = draw(st.sampled_from([100, 850, 1000, 2000, 3000, 6000]))
        sty = draw(st.sampled_from(["ints", "ints", "strings", "mapping", "nested"]))
        if sty == "ints":
            items = ["%d" % (100000 + i) for i in range(m)]
            o, c = "({", "})"
        elif sty == "strings":
            items = ['"gs%d"' % (i % 200) for i in range(m)]
            o, c = "({", "})"
        elif sty == "mapping":
            items = ["%d:%d" % (i, 70000 + i) for i in range(min(m, 3000))]
            o, c = "([", "])"
        else:
            items = ["({ %d, %d })" % (i, 90000 + i) for i in range(m // 2)]
            o, c = "({", "})"
        rows = "".join("  " + ", ".join(items[j:j + 10]) + ",\n" for j in range(0, len(items), 10))
        head = "int small() { return 1; }\n" if draw(st.booleans()) else ""
        return head + "mixed tab = " + o + "\n" + rows + c + ";\nmixed f() { return sizeof(tab); }\n"
    if k == "bigarray":
        return "mixed f() { return ({ " + ", ".join(str(i) for i in range(n)) + " }); }\nmapping g() { return ([ " + ", ".join("%d:%d" % (i, i) for i in range(min(n, 300))) + " ]); }\n"
    if k == "elseif":
        return "int f(int a) { " + " else ".join("if (a == %d) return %d;" % (i, i) for i in range(n)) + " return -1; }\n"
    if k == "ternary":
        return "int f(int a) { return " + "".join("a == %d ? %d : " % (i, i) for i in range(n)) + "0; }\n"
    if k == "bigstring":
        return 'string f() { return "' + "x" * min(n * 60, 60000) + '"; }\n'
    if k == "classes":
        n = min(n, 300)
        return "".join("class C%d { int a; string b; }\n" % i for i in range(n)) + "mixed f() { class C0 c = new(class C0); return c; }\n"
    # function literals each with many locals (the reallocate_locals path)
    n = min(n, 60)
    body = "1"
    for d in range(min(draw(st.integers(1, 12)), 12)):
        body = "function(int a%d) { %s return %s; }" % (d, "".join("int l%d_%d;" % (d, i) for i in range(n)), body)
    return "mixed f() { return " + body + "; }\n"


@st.composite
def x_leaver(draw):
    """sources built to leave lexer / preprocessor / compiler state behind when their compilation ends early"""
    k = draw(st.integers(0, 14))
    efn = draw(st.sampled_from(["time", "strlen", "sizeof", "member_array", "explode", "write", "this_object", "random"]))
    if k == 12:
        # an efun's name defined twice over in one file (valid LPC): what the compiler remembers about the name must be gone afterwards
        return "int %s;\nint %s() { return %s; }\n" % (efn, efn, efn)
    if k == 13:
        return "class %s { int a; }\nint %s;\nint f() { return %s; }\n" % (efn, efn, efn)
    if k == 14:
        return "int %s;\nclass %s { int x; }\nint %s(int a) { return a; }\nint g() { return %s(%s +; }\n" % (efn, efn, efn, efn, efn)
    opener = draw(st.sampled_from(["#if 1\n", "#ifdef M9\n#else\n", "#ifndef GUARD_X\n#define GUARD_X\n", "#if 1\n#if 1\n#if 0\n#else\n"]))
    if k == 0:
        return opener + "#if @\n"
    if k == 1:
        return opener + 'string s = "unterminated\n'
    if k == 2:
        return opener + 'inherit "/t/c02parent";\nint f() { return parent_fn(); }\n#endif\n'
    if k == 3:
        return "#define M0 42\n#define M1(a,b) a\n#define FOO bar\n" + opener + "int f() { return M0; }\n"
    if k == 4:
        return "#define M0 42\nint f() { return M0 +; }\n"
    if k == 5:
        return opener + "/* comment never closed\nint f() { return 1; }\n"
    if k == 6:
        return opener + "mixed f() { return @END\nnever closed\n"
    if k == 7:
        return '#include "inc_openif.h"\nint g() { return 2; }\n'
    if k == 8:
        return opener + "#define DEEP(x) DEEP(x) DEEP(x)\nint f() { return DEEP(1); }\n"
    if k == 9:
        return "mixed f() { return function(int a) { return function(int b) { return (: $1 + " + draw(st.sampled_from(["", "1", "@", '"'])) + "\n"
    if k == 10:
        return "#define M5 \\\n"
    return opener + "int f() { switch (1) { case 1: case 1: return 1; case \"a\": return 2; } }\n" + draw(st.sampled_from(["", "#endif\n", "}"]))


def x_any():
    return st.one_of(x_random(), x_soup(), x_mutant(), x_mutant(), x_extreme(), x_extreme(), x_leaver(), x_leaver())


@st.composite
def cases(draw):
    from . import c03
    xs = draw(st.lists(x_any(), min_size=1, max_size=4))
    xs = [x[:65536] for x in xs]
    # the valid program compiled after the X files sometimes ends without a final newline, in a comment or a directive: whatever the
    # lexer's buffer still holds behind the end of that file must not become part of it
    return dict(xs=xs, y=draw(c03.programs()), load_parent_after=draw(st.booleans()), tail=draw(st.sampled_from([0, 0, 0, 1, 2, 3, 4, 5])))


def ntokens(x):
    import re
    return len(re.findall(r"[A-Za-z_]\w*|\d+|[(){}\[\];,=+*/<>-]", x))


_ref_cache = {}


def tail_steps(w, yfiles, ynames):
    """steps that compile and call P and Y; returns (steps, index of the interesting records)"""
    steps = [["load", "t/c02probe.c"], ["call", "/master", "verif_take_compile_errors"], ["progsum", "t/c02probe"], ["call", "t/c02probe", "run_probe"],
             ["load", "t/c02y.c"], ["call", "/master", "verif_take_compile_errors"], ["progsum", "t/c02y"]]
    for vn, sp, ff in ynames:
        if ff == "r" and sp["inputs"] == "args":
            steps.append(["call", "t/c02y", "run_args", arg("v_" + vn)])
    return steps


def summarise(res, base, n):
    out = []
    for i in range(base, base + n):
        r = res.step(i) or {}
        r = {k: v for k, v in r.items() if k != "i"}
        out.append(r)
    return out


Y_TAILS = ["", "// a comment on the last line, no newline behind it", "#define C02_TAIL 1", "#define C02_TAIL 1 // and a comment", "#if 0\nint never;\n#endif", "/* closed */ // open"]


def evaluate_case(ctx, w, case):
    from . import c03
    yfiles, ynames = c03.render_program(case["y"])
    w.write("t/c02y.c", yfiles["r"] + Y_TAILS[case.get("tail", 0)])
    for i in range(4):
        w.remove("t/c02x%d.c" % i)
    # reference: P and Y in a fresh driver
    tail = tail_steps(w, yfiles, ynames)
    ref = w.run(tail)
    if ref.timed_out:
        ctx.inconclusive["reference-run-failed"] += 1
        return None, None
    rc = ref.crash()
    if rc:
        # the probe and the generated valid program alone, in a fresh driver: a memory error here is a finding like any other
        return ("crash:" + rc[1][:70], "in the fresh driver (probe and Y only, Y ends with %r)\n%s" % (Y_TAILS[case.get("tail", 0)], rc[2][:3000])), None
    ref_sum = summarise(ref, 0, len(tail))
    if ref_sum[0].get("st") != "ok":
        return ("probe-does-not-compile", "fresh driver: %r %r" % (ref_sum[0], ref_sum[1])), None
    if ref_sum[4].get("st") != "ok" and case.get("tail", 0):
        # metamorphic: the same program with a newline at its end. (Y itself may be rejected: constant folding finds divisions by zero.)
        w.write("t/c02y0.c", yfiles["r"])
        r0 = w.run([["load", "t/c02y0.c"]])
        if not r0.timed_out and not r0.crash() and (r0.step(0) or {}).get("st") == "ok":
            return ("last-line-without-newline-changes-outcome", "fresh driver: Y compiles, Y + %r (no newline behind it) does not: %r %r" % (
                Y_TAILS[case["tail"]], ref_sum[4], ref_sum[5])), None
    steps = []
    for i, x in enumerate(case["xs"]):
        if case.get("pretext"):
            # the driver's own tests compile source text handed over in memory (load_object's pre_text); only replays use this path
            steps += [["load", "t/c02x%d.c" % i, x], ["call", "/master", "verif_take_compile_errors"]]
            continue
        w.write("t/c02x%d.c" % i, x.encode("latin-1", "replace"))
        steps += [["load", "t/c02x%d.c" % i], ["call", "/master", "verif_take_compile_errors"]]
    base = len(steps)
    res = w.run(steps + tail)
    info = "\n".join("---- X%d (%d bytes)\n%s" % (i, len(x), x[:1500]) for i, x in enumerate(case["xs"]))
    if res.timed_out:
        ctx.inconclusive["timeout"] += 1
        return None, None
    cr = res.crash()
    if cr:
        return ("crash:" + cr[1][:70], info + "\n" + cr[2][:3000]), None
    feats = set()
    # (2) outcome dichotomy for every X
    for i, x in enumerate(case["xs"]):
        r, ce = res.step(2 * i) or {}, res.step(2 * i + 1) or {}
        errs = unjson(ce["v"])[1] if ce.get("st") == "val" else []
        if r.get("st") == "ok":
            feats.add("x-compiled")
        elif r.get("st") in ("err", "null"):
            feats.add("x-rejected")
            if not errs and not r.get("nerr") and not (r.get("msg") or "").strip():
                if "in program /t/c02x%d.c" % i in res.stderr:
                    # a program was produced: the load failed in the program's own initialisers (#global_init#/create) with a run-time
                    # error whose trace names the program, and the master's error handler could not run either (evaluator stack full)
                    feats.add("x-compiled-init-failed")
                    continue
                return ("no-program-and-no-error", "X%d produced neither a program nor an error message: %r\n%s" % (i, r, info)), None
        else:
            return ("unexpected-load-outcome", "X%d: %r\n%s" % (i, r, info)), None
        if "#" in x:
            feats.add("directive")
    # (3) reusability
    got = summarise(res, base, len(tail))
    names = ["load P", "compile errors of P", "program summary of P", "results of P", "load Y", "compile errors of Y", "program summary of Y"] + ["results of Y"] * 12
    for j, (a, b) in enumerate(zip(ref_sum, got)):
        if a != b:
            da = {k: (a.get(k), b.get(k)) for k in set(a) | set(b) if a.get(k) != b.get(k)}
            return ("compiler-not-reusable:%s" % names[j].split(" of ")[0].replace(" ", "-"),
                    "%s differ after the X files (fresh, after): %s\n%s" % (names[j], str(da)[:1500], info)), None
    return None, feats


_workers = {}


def get_worker(ctx):
    w = _workers.get(ctx.rundir)
    if w is None:
        files = {"t/c02probe.c": PROBE, "t/c02parent.c": PARENT}
        files.update(INCLUDES)
        w = Worker(ctx.scratch("w"), timeout=40, mudlib_files=files)
        _workers[ctx.rundir] = w
    return w


def close_workers(ctx):
    w = _workers.pop(ctx.rundir, None)
    if w:
        w.close()


def check(ctx, case):
    f, feats = evaluate_case(ctx, get_worker(ctx), case)
    if f:
        ctx.evaluations += 1
        ctx.fail(f[0], dict(xs=case["xs"], y=case["y"]), f[1])
        return
    if feats is None:
        ctx.case_done(None, ["not-executed"])
        return
    nontriv = any(ntokens(x) >= 8 for x in case["xs"]) and ("x-rejected" in feats or "directive" in feats)
    ctx.case_done(runner.khash(case["xs"]) if nontriv else None, sorted(feats), sample=dict(xs=[x[:200] for x in case["xs"]]))


# ------------------------------------------------------------------ coverage-guided layer (libFuzzer target harness/fuzz_compile.cpp)
def fuzz_setup(root):
    import shutil
    from ..worker import BASE_MUDLIB, DEFAULT_CONF
    m = os.path.join(root, "mudlib")
    if os.path.isdir(root):
        shutil.rmtree(root)
    shutil.copytree(BASE_MUDLIB, m)
    for path, text in dict(INCLUDES, **{"t/c02probe.c": PROBE, "t/c02parent.c": PARENT}).items():
        fp = os.path.join(m, path)
        os.makedirs(os.path.dirname(fp), exist_ok=True)
        open(fp, "w").write(text)
    conf = dict(DEFAULT_CONF, MudlibDir=m)
    open(os.path.join(root, "fz.conf"), "w").write("".join("%s\t%s\n" % kv for kv in conf.items()))
    os.makedirs(os.path.join(root, "corpus")); os.makedirs(os.path.join(root, "art"))
    for i, src in enumerate(valid_sources()):
        open(os.path.join(root, "corpus", "valid%d" % i), "wb").write(b"\x00" + src.encode("latin-1", "replace"))
    open(os.path.join(root, "corpus", "inc0"), "wb").write(b"\x02#define FZ 1\nint from_inc() { return FZ; }\n\xff#include \"fz_inc.h\"\nint f() { return from_inc(); }\n")
    with open(os.path.join(root, "lpc.dict"), "w") as d:
        for t in KEYWORDS + OPERATORS + LITERALS + [x.strip("\n").split("\n")[0] for x in DIRECTIVES]:
            if t and '"' not in t and "\\" not in t:
                d.write('"%s"\n' % t)
    return root


def fuzz_run_file(root, path):
    """runs one input through the target; returns (crashed, tail of stderr)"""
    import subprocess
    from .. import build
    from ..worker import _lift_limits
    exe = build.binary("fuzz", "fuzz_compile")
    env = dict(os.environ, VERIF_FUZZ_CONF=os.path.join(root, "fz.conf"), ASAN_OPTIONS="detect_leaks=0:abort_on_error=0:symbolize=1")
    r = subprocess.run([exe, path], capture_output=True, env=env, preexec_fn=_lift_limits, timeout=120)
    err = r.stderr.decode("latin-1")
    return r.returncode != 0, err


def fuzz_signature(err):
    if "C02-ORACLE" in err:
        return "fuzz:" + err.split("C02-ORACLE:")[1].split("\n")[0].strip().replace(" ", "-")[:70]
    if "SUMMARY: AddressSanitizer" in err:
        return "fuzz:asan:" + err.split("SUMMARY: AddressSanitizer:")[1].split("\n")[0].strip()[:90]
    return "fuzz:crash"


def fuzz_campaign(ctx):
    import re, subprocess, hashlib
    from .. import build
    from ..worker import _lift_limits
    exe = build.binary("fuzz", "fuzz_compile")
    root = fuzz_setup(ctx.scratch("fuzz"))
    runs = {"quick": 8000, "thorough": 300000}[ctx.tier]
    before = set(os.listdir(os.path.join(root, "corpus")))
    env = dict(os.environ, VERIF_FUZZ_CONF=os.path.join(root, "fz.conf"), ASAN_OPTIONS="detect_leaks=0:abort_on_error=0:symbolize=1")
    cmd = [exe, "-max_len=8192", "-runs=%d" % runs, "-seed=%d" % ((ctx.hseed % (2 ** 31 - 2)) + 1), "-dict=" + os.path.join(root, "lpc.dict"),
           "-artifact_prefix=" + os.path.join(root, "art") + "/", "-timeout=60", "-rss_limit_mb=3500", "-print_final_stats=1", os.path.join(root, "corpus")]
    try:
        r = subprocess.run(cmd, capture_output=True, env=env, preexec_fn=_lift_limits, timeout={"quick": 600, "thorough": 7200}[ctx.tier])
        err = r.stderr.decode("latin-1")
    except subprocess.TimeoutExpired:
        ctx.inconclusive["fuzz-campaign-timeout"] += 1
        return
    m = re.search(r"stat::number_of_executed_units:\s*(\d+)", err)
    execs = int(m.group(1)) if m else 0
    cov = re.findall(r"cov: (\d+) ft: (\d+)", err)
    new = sorted(set(os.listdir(os.path.join(root, "corpus"))) - before)
    ctx.evaluations += execs
    for f in new:
        ctx.nontrivial.add("fuzz:" + f)           # inputs that reached new coverage features
    ctx.classes["fuzz:executed"] += execs
    ctx.classes["fuzz:new-coverage-inputs"] += len(new)
    ctx.extra.setdefault("fuzz", []).append(dict(shard=ctx.shard, executed=execs, cov=int(cov[-1][0]) if cov else 0, features=int(cov[-1][1]) if cov else 0, new_inputs=len(new)))
    arts = sorted(os.listdir(os.path.join(root, "art")))
    for a in arts:
        if not (a.startswith("crash-") or a.startswith("leak-")):
            ctx.inconclusive["fuzz:" + a.split("-")[0]] += 1     # timeout / oom / slow-unit are load noise
            continue
        path = os.path.join(root, "art", a)
        crashed, e2 = fuzz_run_file(root, path)
        if not crashed:
            ctx.inconclusive["fuzz:artifact-does-not-reproduce"] += 1
            continue
        data = open(path, "rb").read()
        sig = fuzz_signature(e2)
        if ctx.is_known(sig):
            ctx.known_seen[ctx.is_known(sig)["id"]] += 1
            continue
        ctx.failures.append(dict(sig=sig, case=dict(kind="fuzz", data=data.decode("latin-1")), detail="libFuzzer artifact %s (%d bytes)\n%s\n%s" % (a, len(data), data[:600].decode("latin-1"), e2[-3000:])))


def shard_main(ctx):
    from hypothesis import given
    n = {"quick": 350, "thorough": 6000}[ctx.tier]

    @given(cases())
    def test(case):
        check(ctx, case)

    try:
        runner.run_hypothesis(ctx, test, n)
    finally:
        close_workers(ctx)
    # shards 0-3 (quick) / all shards (thorough) also run a coverage-guided campaign with their own seed
    if not ctx.failures and (ctx.tier == "thorough" or ctx.shard < 4):
        fuzz_campaign(ctx)


def replay(ctx, case):
    if case.get("kind") == "fuzz":
        root = fuzz_setup(ctx.scratch("fuzz-replay"))
        path = os.path.join(root, "input")
        open(path, "wb").write(case["data"].encode("latin-1"))
        crashed, err = fuzz_run_file(root, path)
        return (fuzz_signature(err), err[-3000:]) if crashed else None
    try:
        f, _ = evaluate_case(ctx, get_worker(ctx), case)
        return f
    finally:
        close_workers(ctx)
