"""C01 - running any LPC program is memory-safe; the worst outcome is an LPC error.

Generator: operator matrix x efun surface x frame kinds over a pool of boundary values of every
runtime type (DESIGN.md section 4, C01). Oracle: every harness call ends with a value or an LPC
error and the child is alive: no ASan/UBSan report, no signal, no exit()/fatal(), pc inside the
program's bytecode; plus the format-string metamorphic relation (S vs S with '%' -> '#')."""
import os

from hypothesis import strategies as st

from .. import genlpc, runner
from ..worker import Worker, arg

LEVEL = "exploration"
RULE = ("cases = LPC programs with 1-3 test functions, each applying one operator / index / range / lvalue form / efun "
        "(signatures from the generated efun table) / foreach / varargs expansion to operands drawn from a pool of boundary "
        "values of every runtime type, through one frame kind (direct, catch, function pointer, call_other, efun callback). "
        "non-trivial = the program compiled and the step reached the application (value or LPC error returned); "
        "distinct = distinct (kind, operator-or-efun, operand runtime types, operand value classes, frame)")
ASSUMPTIONS = ["ASan + UBSan subset (bounds,null,object-size,nonnull,returns-nonnull,vla-bound) make memory errors visible; "
               "over-reads that stay inside one malloc block are invisible (left to C03)",
               "shutdown() is excluded: terminating the driver is its documented job",
               "file-writing efuns run under a master that confines writes to /scratch/",
               "a case that times out is inconclusive, not a violation"]
NONTRIVIAL_FLOOR = {"quick": 500, "thorough": 5000}

BINOPS = ["+", "-", "*", "/", "%", "&", "|", "^", "<<", ">>", "==", "!=", "<", "<=", ">", ">=", "&&", "||"]
UNOPS = ["-", "!", "~"]
ASSIGNOPS = ["+=", "-=", "*=", "/=", "%=", "&=", "|=", "^=", "<<=", ">>=", "="]
INDEXFORMS = ["a[b]", "a[<b]", "a[b..c]", "a[<b..c]", "a[b..<c]", "a[<b..<c]", "a[b..]", "a[<b..]"]
LVALFORMS = ["x[b] = c", "x[<b] = c", "x[b..c] = d", "x[<b..c] = d", "x[b..<c] = d", "x[<b..<c] = d", "x[b..] = d", "x[<b..] = d",
             "x[b] += c", "x[b] -= c", "x[b]++", "x[<b]--", "++x[b]", "x[b][c] = d", "x[b][c..d] = a", "x[b] |= c", "x[b] <<= c"]
INCDEC = ["x++", "x--", "++x", "--x"]
TARGETS = ["local", "global", "elem", "mapelem"]
FRAMES = ["direct", "catch", "funptr", "call_other", "callback"]
MISC = ["foreach1", "foreach2", "expand", "expand_lfun", "switch_int", "switch_str", "member", "member_set", "sscanf", "parse_command",
        "aggregate", "catch_throw", "evaluate", "call_other_any", "neg_index_chain", "while_dec", "loop_cond", "string_char_inc",
        "add_eq_chain", "sprintf_col", "sprintf_tab", "implode_fp", "sort_fp", "unique_fp", "filter_map", "save_restore", "reg_assoc", "regexp", "sprintf_fmt", "sprintf_fmt", "sscanf_fmt"]

# "chain" tests: a value held by two variables goes through three statements, so that what an in-place write (copy on write) leaves
# behind is consumed by a later operator or efun that sizes its result from the cached length / size
CHAINSTEPS = LVALFORMS + ["y = x + b", "y = b + x", "x += b", "x += x", "y = x", "x = y + x", "y = upper_case(x)", "y = lower_case(x)",
                          "y = capitalize(x)", "y = x[b..c]", 'y = sprintf("%s|%O", x, x)', "y = implode(({ x, x }), d)", "y = explode(x, d)",
                          "y = replace_string(x, d, d + d)", "y = copy(x)", "y = x - b", "y = ({ x }) + ({ y })", "x[b..c] = y", "y = x + x",
                          "y = set_bit(x, b)", "y = x * 2", "y = x & y", "y = x | y", "y += x", "x = x[b..]", "y = strlen(x)", "y = sizeof(x)",
                          "z = x", "y = z + b", "z += d",
                          # range assignment from a temporary (reference count 1) holding refcounted elements, same and different lengths
                          'x[0..1] = ({ ({ b }), "s" + b })', "x[b..c] = ({ d, y })", "x[1..2] = ({ ([ b : c ]), ({ d }) })", "x[0..0] = ({ ({ d, d }) })",
                          'x[b..c] = ({ "t" + c, ({ b }), ([ ]) })', "x[0..1] = y[0..1]", "x[0..2] = map(({ 1, 2, 3 }), (: ({ $1 }) :))"]
_BIG = [i for i, v in enumerate(genlpc.ALL_VALUES) if v[0] in ("s_65535", "s_65536", "s_70000", "s_256", "a_1000", "a_max", "a_8", "s_abc", "m_100", "b_1000")]
_SMALLINT = [i for i, v in enumerate(genlpc.ALL_VALUES) if v[0] in ("i0", "i1", "i2", "i7", "i255", "i65535")]
_FILL = [i for i, v in enumerate(genlpc.ALL_VALUES) if v[0] in ("i7", "i255", "s_a", "s_abc", "s_empty", "a_1", "a_mixed", "s_256")]

_RE_SUBJ = [i for i, v in enumerate(genlpc.ALL_VALUES) if v[0] in ("s_subject", "s_abc", "s_empty", "s_a", "s_nl", "s_256", "s_words")]
_RE_PATS = [i for i, v in enumerate(genlpc.ALL_VALUES) if v[0] in ("a_re", "a_re2", "a_str")]
_RE_TOKS = [i for i, v in enumerate(genlpc.ALL_VALUES) if v[0] in ("a_tok2", "a_str", "a_1")]

_FLAGS = ["", "", "-", "|", "+", " ", "0", "#", "=", "@", "'x'", "'ab'", "-#", "=|", "@-", "-=", "#|"]
_WIDTHS = ["", "", "*", "0", "1", "5", "20", "255", "256", "1000", "70000", "99999999999"]
_PRECS = ["", "", ".*", ".0", ".1", ".5", ".300", ".70000", ".", ":3", ":*"]
_CONVS = list("sdioxXcfgeEGO%") + ["z", "n", "p", "*"]
_fmt_piece = st.tuples(st.sampled_from(["", "x", " ", "\n"]), st.sampled_from(_FLAGS), st.sampled_from(_WIDTHS), st.sampled_from(_PRECS),
                       st.sampled_from(_CONVS)).map(lambda t: t[0] + "%" + t[1] + t[2] + t[3] + t[4])
sprintf_formats = st.lists(_fmt_piece, min_size=1, max_size=4).map("".join)
_scan_piece = st.tuples(st.sampled_from(["", "x", " ", "ab"]), st.sampled_from(["", "*", "3", "0", "300", "99999999999"]),
                        st.sampled_from(list("sdfxc%") + ["[a-z]", "[^ ]", "[", "[]", "[a", "(a*)", "(", "*s"])).map(lambda t: t[0] + "%" + t[1] + t[2])
sscanf_formats = st.lists(_scan_piece, min_size=1, max_size=4).map("".join)

EXCLUDED_EFUNS = {"shutdown": "terminating is its documented job"}

_VALS = genlpc.ALL_VALUES
_VAL_BY_TYPE = {}
for _i, (_c, _t, _e) in enumerate(_VALS):
    _VAL_BY_TYPE.setdefault(_t, []).append(_i)
_EFUNS = None


def efuns():
    global _EFUNS
    if _EFUNS is None:
        _EFUNS = [e for e in genlpc.efun_table() if e[0] not in EXCLUDED_EFUNS]
    return _EFUNS


vals = st.integers(0, len(_VALS) - 1).map(lambda i: list(_VALS[i]))


@st.composite
def efun_call(draw):
    ef = draw(st.sampled_from(efuns()))
    name, mn, mx, masks, _ = ef
    hi = mx if mx >= 0 else mn + 3
    n = draw(st.integers(max(mn, 0), max(hi, mn)))
    if draw(st.integers(0, 19)) == 0:
        n = draw(st.integers(0, 6))             # illegal arity: must be a compile error, never a crash
    args = []
    for i in range(n):
        mask = masks[i] if i < 4 else 0x3fe
        if draw(st.integers(0, 9)) < 7:
            ty = draw(st.sampled_from(genlpc.types_of_mask(mask)))
            args.append(list(_VALS[draw(st.sampled_from(_VAL_BY_TYPE[ty]))]))
        else:
            args.append(draw(vals))
    spelling = draw(st.sampled_from(["direct", "direct", "funptr", "call_other_efun", "funptr_bound", "funptr_bound"]))
    return dict(kind="efun", op=name, vals=args, spelling=spelling)


@st.composite
def one_test(draw):
    k = draw(st.sampled_from(["binop", "binop", "unop", "assignop", "incdec", "index", "lval", "efun", "efun", "efun", "efun", "misc", "chain", "chain", "fmt"]))
    frame = draw(st.sampled_from(FRAMES))
    if k == "chain":
        def pick(pref):
            return list(_VALS[draw(st.sampled_from(pref))]) if draw(st.integers(0, 9)) < 7 else draw(vals)
        steps = draw(st.lists(st.sampled_from(CHAINSTEPS), min_size=2, max_size=4))
        if draw(st.integers(0, 9)) < 6:
            steps[0] = draw(st.sampled_from(LVALFORMS[:8]))      # an in-place write first, consumers after it
        t = dict(kind=k, op="chain", steps=steps,
                 vals=[pick(_BIG), pick(_SMALLINT), pick(_SMALLINT), pick(_FILL)])
        t["frame"] = frame
        return t
    if k == "efun":
        t = draw(efun_call())
    elif k == "binop":
        t = dict(kind=k, op=draw(st.sampled_from(BINOPS)), vals=[draw(vals), draw(vals)])
    elif k == "unop":
        t = dict(kind=k, op=draw(st.sampled_from(UNOPS)), vals=[draw(vals)])
    elif k == "assignop":
        t = dict(kind=k, op=draw(st.sampled_from(ASSIGNOPS)), target=draw(st.sampled_from(TARGETS)), vals=[draw(vals), draw(vals)])
    elif k == "incdec":
        t = dict(kind=k, op=draw(st.sampled_from(INCDEC)), target=draw(st.sampled_from(TARGETS)), vals=[draw(vals)])
    elif k == "index":
        t = dict(kind=k, op=draw(st.sampled_from(INDEXFORMS)), vals=[draw(vals), draw(vals), draw(vals)])
    elif k == "lval":
        t = dict(kind=k, op=draw(st.sampled_from(LVALFORMS)), vals=[draw(vals), draw(vals), draw(vals), draw(vals)])
    else:
        op = draw(st.sampled_from(MISC)) if k != "fmt" else draw(st.sampled_from(["sprintf_fmt", "sprintf_fmt", "sprintf_fmt", "sscanf_fmt"]))
        k = "misc"
        t = dict(kind=k, op=op, vals=[draw(vals), draw(vals), draw(vals)])
        if op in ("sprintf_fmt", "sscanf_fmt"):
            # a format string built from the format grammar (flags, field size, precision, '*', column / table modes), three operands
            fm = draw(sprintf_formats if op == "sprintf_fmt" else sscanf_formats)
            t["vals"] = [["s_genfmt", "string", genlpc.lpc_str(fm)], draw(vals), draw(vals), draw(vals)]
            if op == "sscanf_fmt":
                t["vals"][1] = ["s_gensubj", "string", genlpc.lpc_str(draw(st.sampled_from(["", "12 abc 3.5", "xab12 34", "a" * 500, "  ", "-7x0x1F z"])))]
        if op in ("reg_assoc", "regexp") and draw(st.integers(0, 9)) < 8:
            # mostly well-typed: a subject, an array of patterns (among them patterns that match the empty string), tokens of the same size
            t["vals"] = [list(_VALS[draw(st.sampled_from(_RE_SUBJ))]), list(_VALS[draw(st.sampled_from(_RE_PATS))]), list(_VALS[draw(st.sampled_from(_RE_TOKS))])]
    t["frame"] = frame
    return t


cases = st.lists(one_test(), min_size=1, max_size=3).map(lambda ts: dict(tests=ts))


def body_of(t):
    """LPC statements of the test body; operands are the arguments a, b, c, d (never constants)"""
    k, op = t["kind"], t["op"]
    if k == "binop":
        return "return a %s b;" % op
    if k == "unop":
        return "return %s a;" % op
    if k in ("assignop", "incdec"):
        stmt = ("T %s b;" % op) if k == "assignop" else op.replace("x", "T") + ";"
        tg = t["target"]
        if tg == "local":
            return "mixed x = a; " + stmt.replace("T", "x") + " return x;"
        if tg == "global":
            return "g0 = a; " + stmt.replace("T", "g0") + " return g0;"
        if tg == "elem":
            return "mixed *h = ({ 0, a }); " + stmt.replace("T", "h[1]") + " return h;"
        return 'mapping h = ([ "k": a ]); ' + stmt.replace("T", 'h["k"]') + " return h;"
    if k == "index":
        return "return %s;" % op
    if k == "lval":
        return "mixed x = a; %s; return x;" % op
    if k == "chain":
        return "mixed x = a; mixed y = x; mixed z; " + " ".join("catch(%s);" % st_ for st_ in t["steps"]) + " return ({ x, y, z });"
    if k == "efun":
        n = len(t["vals"])
        names = ["a", "b", "c", "d", "e", "f", "g"][:n]
        if t["spelling"] == "direct":
            return "return %s(%s);" % (op, ", ".join(names))
        if t["spelling"] == "funptr":
            return "return evaluate((: %s :)%s);" % (op, "".join(", " + x for x in names))
        if t["spelling"] == "funptr_bound":
            # the first arguments are bound into the pointer, the rest is passed at the call (k = half of them, at least one when there is one)
            k = (n + 1) // 2
            return "return evaluate((: %s%s :)%s);" % (op, "".join(", " + x for x in names[:k]), "".join(", " + x for x in names[k:]))
        return 'return call_other(this_object(), "ef_%s"%s);' % (op, "".join(", " + x for x in names))
    m = {
        "foreach1": "mixed *r = ({ }); foreach (mixed x in a) { r += ({ x }); if (sizeof(r) > 70000) break; } return sizeof(r);",
        "foreach2": "int n; foreach (mixed k, mixed v in a) { n++; if (n > 70000) break; } return n;",
        "expand": "return sizeof(({ a... }));",
        "expand_lfun": "return lfun2(a...);",
        "switch_int": "switch (a) { case 0: return 1; case 1..5: return 2; case 100: return 3; case -2147483648: return 4; case 4294967296: return 6; default: return 5; }",
        "switch_str": 'switch (a) { case "a": return 1; case "abc def": return 2; case "": return 3; case 0: return 9; default: return 4; }',
        "member": "return ((class VC)a)->x;",
        "member_set": "((class VC)a)->y = b; return a;",
        "sscanf": "mixed x, y; int n = sscanf(a, b, x, y); return ({ n, x, y });",
        "parse_command": "mixed x, y; int n = parse_command(a, b, c, x, y); return ({ n, x, y });",
        "aggregate": "return ({ a, b, c, ({ a, b }), ([ a : b, b : c ]) });",
        "catch_throw": "mixed e = catch(throw(a)); return ({ e, catch(error(b)) });",
        "evaluate": "return evaluate(a, b, c);",
        "call_other_any": "return call_other(a, b, c);",
        "neg_index_chain": "return a[b][c];",
        "while_dec": "mixed i = a; int n; while (i--) { n++; if (n > 1000) break; } return n;",
        "loop_cond": "mixed i; int n; for (i = a; i < b; i++) { n++; if (n > 1000) break; } return n;",
        "string_char_inc": "string s = a; s[b]++; s[<1]--; s[b] += c; return s;",
        "add_eq_chain": "mixed x = a; x += b; x += c; x -= b; return x;",
        "sprintf_col": 'return sprintf("%-=" + b + "s|%|" + c + "s|%@s", a, a, ({ a }));',
        "sprintf_tab": 'return sprintf("%#-" + b + "." + c + "s", a);',
        "implode_fp": "return implode(a, b, c);",
        "sort_fp": "return sort_array(a, b, c);",
        "unique_fp": "return unique_array(a, b, c);",
        "filter_map": "return ({ filter(a, b, c), map(a, b, c) });",
        "save_restore": "return restore_variable(save_variable(a));",
        "reg_assoc": "return reg_assoc(a, b, c);",
        "sprintf_fmt": "return sprintf(a, b, c, d);",
        "sscanf_fmt": "mixed x, y, z; int n = sscanf(b, a, x, y, z); return ({ n, x, y, z });",
        "regexp": "return ({ regexp(({ a, a + a, \"\" }), b[0]), regexp(({ a }), b[1], 1) });",
    }
    return m[op]


def argnames(t):
    return ["a", "b", "c", "d", "e", "f", "g"][:max(len(t["vals"]), 1)]


def render(case, subst=None):
    """LPC source of the case; subst maps value index -> replacement expression (format-string twin)"""
    out = [genlpc.PRELUDE]
    efs = set()
    for i, t in enumerate(case["tests"]):
        names = argnames(t)
        if t["kind"] == "efun" and t["spelling"] == "call_other_efun" and t["op"] not in efs:
            efs.add(t["op"])
            out.append("mixed ef_%s(mixed a, mixed b, mixed c, mixed d, mixed e, mixed f, mixed g) { return %s(%s); }" % (
                t["op"], t["op"], ", ".join(names[:len(t["vals"])])))
        out.append("mixed t%d_body(%s) { %s }" % (i, ", ".join("mixed " + n for n in names), body_of(t)))
        exprs = []
        for v in t["vals"]:
            e = v[2]
            if subst and v[0] in FMT_CLASSES:
                e = e.replace("%", "#")
            exprs.append(e)
        while len(exprs) < len(names):
            exprs.append("0")
        decl = " ".join("mixed %s = %s;" % (n, e) for n, e in zip(names, exprs))
        al = ", ".join(names)
        fr = t["frame"]
        if fr == "direct":
            call = "return t%d_body(%s);" % (i, al)
        elif fr == "catch":
            call = "mixed r; mixed err = catch(r = t%d_body(%s)); return ({ err, r });" % (i, al)
        elif fr == "funptr":
            call = "return evaluate((: t%d_body :), %s);" % (i, al)
        elif fr == "call_other":
            call = 'return call_other(this_object(), "t%d_body", %s);' % (i, al)
        else:
            rest = "".join(", " + n for n in names[1:])
            call = "return map(({ a }), (: t%d_body :)%s);" % (i, rest)
        out.append("mixed t%d() { %s %s }" % (i, decl, call))
    return "\n".join(out) + "\n"


def key_of(t):
    return (t["kind"], t["op"], t.get("target", t.get("spelling", "")) or ";".join(t.get("steps", [])), tuple(v[1] for v in t["vals"]),
            tuple(v[0] for v in t["vals"]), t["frame"])


FMT_CLASSES = {"s_fmt", "s_fmt2", "s_pct_long"}
# efuns / forms whose *documented* job is to interpret '%' in a string argument: the twin relation does not apply there
PCT_SIGNIFICANT = {"sprintf", "printf", "sscanf", "sprintf_col", "sprintf_tab", "parse_command"}

_workers = {}


def get_worker(ctx):
    w = _workers.get(ctx.rundir)
    if w is None:
        w = Worker(ctx.scratch("w"), mudlib_files={"t/dummy.c": genlpc.DUMMY}, timeout=6, conf={"MaxLocalVariables": "120"})
        os.makedirs(os.path.join(w.mudlib, "scratch"), exist_ok=True)
        _workers[ctx.rundir] = w
    return w


def close_workers(ctx):
    w = _workers.pop(ctx.rundir, None)
    if w:
        w.close()


def run_case(ctx, w, case, subst=None):
    src = render(case, subst)
    steps = [["call", "/master", "set_policy", arg("write"), arg("scratch")],
             ["load", "t/c01.c"]]
    w.write("t/c01.c", src)     # real callers compile from files (the pre_text extension is a test-only path)
    for i in range(len(case["tests"])):
        steps.append(["call", "t/c01", "t%d" % i])
    return w.run(steps), src


def evaluate_case(ctx, w, case):
    """returns (failure or None, list of (key, status) per test)"""
    res, src = run_case(ctx, w, case)
    if res.timed_out:
        ctx.inconclusive["timeout"] += 1
        return None, []
    cr = res.crash()
    if cr:
        sig = "%s:%s" % (cr[0], cr[1])
        if "@?" in sig or cr[0] in ("signal", "exit", "vanished"):
            # no repository frame in the report: identify the site by the application that was executing
            for i, t in enumerate(case["tests"]):
                if not res.step(2 + i):
                    sig += "|%s:%s" % (t["kind"], t["op"])
                    break
        return (sig, "source:\n" + src + "\n--- records:\n" + "\n".join(map(str, res.recs[-4:])) + "\n--- stderr:\n" + cr[2]), []
    done = res.recs[-1] if res.recs else {}
    if done.get("pc_violation"):
        return ("pc-outside-bytecode", "source:\n" + src), []
    ld = res.step(1)
    if not ld or ld.get("st") != "ok":
        ctx.classes["compile-rejected"] += 1
        return None, []
    stats = []
    twin_needed = []
    for i, t in enumerate(case["tests"]):
        r = res.step(2 + i)
        st_ = r.get("st") if r else "missing"
        stats.append((key_of(t), st_))
        if (st_ == "err" and any(v[0] in FMT_CLASSES for v in t["vals"]) and t["op"] not in PCT_SIGNIFICANT
                and all(v[1] in ("int", "float", "string") for v in t["vals"])):
            twin_needed.append((i, r.get("msg", "")))
    if twin_needed:
        # metamorphic format-string oracle: '%' -> '#' in the attacker text must only substitute in the message
        res2, src2 = run_case(ctx, w, case, True)
        if not res2.timed_out and not res2.crash():
            for i, msg in twin_needed:
                r2 = res2.step(2 + i)
                if r2 and r2.get("st") == "err":
                    m1, m2 = msg.replace("%", "#"), r2.get("msg", "").replace("%", "#")
                    if m1 != m2 and len(m1) < 4000:
                        return ("format-string-metamorphic:" + case["tests"][i]["op"],
                                "source:\n%s\nmessage with %%: %r\nmessage with #: %r" % (src, msg[:500], r2.get("msg", "")[:500])), stats
        ctx.classes["fmt-twin-checked"] += 1
    return None, stats


def check(ctx, w, case):
    f, stats = evaluate_case(ctx, w, case)
    if f:
        ctx.evaluations += 1
        ctx.fail(f[0], case, f[1])
        return
    if not stats:
        ctx.case_done(None, ["no-application"])
        return
    for key, st_ in stats:
        reached = st_ in ("val", "err")
        cl = ["kind:" + key[0], "frame:" + key[5], "outcome:" + st_]
        if key[0] == "efun":
            ctx.extra.setdefault("efuns_reached", [])
            if key[1] not in ctx.extra["efuns_reached"]:
                ctx.extra["efuns_reached"].append(key[1])
        ctx.case_done(runner.khash(key) if reached else None, cl, sample=dict(test=key[:3], types=key[3], values=key[4], frame=key[5], outcome=st_))


def check_program(ctx, w, p):
    """layer 4: whole programs from C03's typed statement grammar (loops, switches, compound assignments on every
    target kind, mapping growth, helper calls) under the crash oracle only"""
    from . import c03
    files, names = c03.render_program(p)
    w.write("t/c01prog.c", files["r"])
    w.write("t/c01progl.c", files["l"])
    res = w.run([["load", "t/c01prog.c"], ["call", "t/c01prog", "run_args", arg("v_base")], ["call", "t/c01prog", "run_args", arg("v_mixed")],
                 ["load", "t/c01progl.c"], ["call", "t/c01progl", "v_literals"]])
    ctx.evaluations += 1
    if res.timed_out:
        ctx.inconclusive["timeout"] += 1
        return
    cr = res.crash()
    if cr:
        sig = "%s:%s" % (cr[0], cr[1])
        if "@?" in sig or cr[0] in ("signal", "exit", "vanished", "terminated"):
            sig += "|program"
        ctx.fail(sig, dict(program=p), "source:\n" + files["r"][:6000] + "\n--- stderr:\n" + cr[2])
        return
    r = res.step(1) or {}
    ctx.classes["kind:program"] += 1
    ctx.classes["outcome:" + str(r.get("st"))] += 1
    if r.get("st") in ("val", "err"):
        ctx.nontrivial.add(runner.khash(["program", p["body"], p["ret"]]))


BUILDS = [("asan", ["lpcvm"]), ("fuzz", ["fuzz_strefun"])]      # built by the parent process before the shards start

# the LPC side of the coverage-guided target harness/fuzz_strefun.cpp: efuns with a little language of their own
STREFUN_AGENT = r'''
mixed *pool = ({ 0, 1, -1, 255, 2147483647, 1.5, 1e300, "", "abc def", "line1\nline2", ({ }), ({ 1, "a", 2.5 }), ({ "x", "yy", "zzz" }), ([ "k" : 1 ]), this_object() });
void create() { seteuid(getuid()); }
mixed f(int which, string a, string b, string c) {
  mixed x, y, z;
  int i = strlen(b), j = strlen(c);
  return catch {
    switch (which % 16) {
    case 0: sprintf(a, b, c, i); break;
    case 1: sprintf(a, pool[i % sizeof(pool)], pool[j % sizeof(pool)], pool[(i + j) % sizeof(pool)]); break;
    case 2: sscanf(b, a, x, y, z); break;
    case 3: regexp(({ b, c, b + c }), a); break;
    case 4: reg_assoc(b, ({ a, c }), ({ 1, 2 }), 0); break;
    case 5: replace_string(a, b, c); replace_string(a, b, c, 1, 2); break;
    case 6: explode(a, b); implode(explode(a, b), c); break;
    case 7: strsrch(a, b); strsrch(a, b, -1); member_array(b, explode(a, c)); break;
    case 8: capitalize(a); lower_case(a); upper_case(b); break;
    case 9: restore_variable(a); break;
    case 10: parse_command(a, ({ this_object() }), b, x, y, z); break;
    case 11: sprintf("%" + a + "s|%" + b + "d|%" + c + "O", b, i, pool); break;
    case 12: sprintf(a, explode(b, " "), explode(c, ","), pool); break;
    case 13: match_path(([ a : 1, b : 2 ]), c); break;
    case 14: crypt(a, b); oldcrypt(a, c); break;
    case 15: to_int(a); to_float(b); a[0..i % 8]; c[<(j % 5 + 1)..]; break;
    }
  };
}
'''


def strefun_root(ctx, name):
    from .. import fuzz
    seeds = [b"\x00%s %d %O\xffabc\xffdef", b"\x01%-=20.5s|%#10O\n\xffab\xffc", b"\x02%s %d %*s\xffabc 12 x\xff", b"\x03a*b|c$\xffaab\xffc", b"\x04(a|b)*\xffabab xx\xff^x",
             b"\x05ab\xffa\xffabab", b"\x06a,b,c\xff,\xff--", b"\x09({1,\"a\",})\xff\xff", b"\x0a get the sword\xff'get' %i\xff", b"\x0b-20.3\xff05\xff=10", b"\x0c%@s|%#-20s\xffa b c\xffx,y"]
    toks = ["%s", "%d", "%O", "%-=", "%#", "%|", "%@", "%*", ".5", ":3", "'x'", "%[a-z]", "%(", "(a|b)", "a*", "$", "^", "\\<", "[^", "]", "({", "})", "([", "])", "%i", "%o", "%p", "%l", "%w", "'get'", "[the]", "/"]
    return fuzz.setup(ctx.scratch(name), {"t/strefun.c": STREFUN_AGENT}, seeds, toks)


def shard_main(ctx):
    from hypothesis import given
    n = {"quick": 900, "thorough": 20000}[ctx.tier]
    w = get_worker(ctx)
    ctx.extra["efuns_total"] = len(efuns()) if ctx.shard == 0 else 0
    ctx.excluded["efun:shutdown"] = 0

    @given(cases)
    def test(case):
        check(ctx, get_worker(ctx), case)

    from . import c03

    @given(c03.programs())
    def test_programs(p):
        check_program(ctx, get_worker(ctx), p)

    try:
        runner.run_hypothesis(ctx, test, n)
        if not ctx.failures:
            runner.run_hypothesis(ctx, test_programs, {"quick": 220, "thorough": 5000}[ctx.tier])
    finally:
        close_workers(ctx)
    # shards 4-7 (quick) / all shards (thorough): coverage-guided campaign over the string efuns that interpret one of their arguments
    if not ctx.failures and (ctx.tier == "thorough" or 4 <= ctx.shard < 8):
        from .. import fuzz
        fuzz.campaign(ctx, "fuzz_strefun", "C01", strefun_root(ctx, "fuzz"), {"quick": 40000, "thorough": 1500000}[ctx.tier], max_len=512)


def replay(ctx, case):
    if case.get("kind") == "fuzz":
        import os
        from .. import fuzz
        root = strefun_root(ctx, "fuzz-replay")
        path = os.path.join(root, "input")
        open(path, "wb").write(case["data"].encode("latin-1"))
        crashed, err = fuzz.run_file("fuzz_strefun", root, path)
        return (fuzz.signature(err, "C01"), err[-3000:]) if crashed else None
    w = get_worker(ctx)
    try:
        if "program" in case:
            before = len(ctx.failures)
            try:
                check_program(ctx, w, case["program"])
            except runner.Failure as f:
                return (f.sig, f.detail)
            return None
        f, _ = evaluate_case(ctx, w, case)
        return f
    finally:
        close_workers(ctx)
