"""C04 - every evaluation is bounded by the configured limits.

Generator: looping / recursing / allocating program shapes x catch nestings x driver configurations.
Oracle: the dispatch hook (H1) counts instructions and samples stack depths and value sizes; an
evaluation that would never end by itself must come back to the harness as a limit error."""
import random

import os

from hypothesis import strategies as st

from .. import runner
from ..worker import Worker, arg, unjson

LEVEL = "exploration"
RULE = ("cases = (program shape, catch nesting, driver configuration); shapes: every loop form, direct / mutual / cross-object recursion, "
        "recursion through function pointers, call_other and efun callbacks, catch-retry loops, doubling concatenations and allocators of "
        "strings / arrays / mappings / buffers; configurations vary MaxEvaluationCost, MaxCallDepth, StackSize, MaxArraySize, MaxMappingSize, "
        "MaxStringLength, MaxBufferSize (a fresh driver per configuration). non-trivial = the evaluation hit at least one limit; "
        "distinct = (shape, limit message class, catch depth, configuration)")
ASSUMPTIONS = ["the H1 dispatch hook counts every interpreted instruction, including the master's error_handler, hence the bound 2 x MaxEvaluationCost + 200 (+ 16 x MaxCallDepth for the master whose handler uses catch: one more handler run per catch level passed)",
               "work done inside one efun call is not counted by the evaluation cost",
               "value sizes are sampled on the top three stack slots at every instruction and on the returned value"]
NONTRIVIAL_FLOOR = {"quick": 100, "thorough": 1000}

# name -> (helper functions text, body of run(), infinite?)
SHAPES = {
    "while1": ("", "int x; while (1) { x++; } return x;", True),
    "for_ever": ("", "int x; for (;;) { x += 2; } return x;", True),
    "do_while": ("", "int x; do { x++; } while (1); return x;", True),
    "while_dec": ("", "int i = 9223372036854775807; int x; while (i--) { x++; } return x;", True),
    "rec_direct": ("int f(int n) { return f(n + 1) + 1; }", "return f(0);", True),
    "rec_mutual": ("int g(int n); int f(int n) { return g(n + 1) + 1; } int g(int n) { return f(n + 1) + 1; }", "return f(0);", True),
    "rec_funptr": ("int f(int n) { return evaluate((: f :), n + 1) + 1; }", "return f(0);", True),
    "rec_expr_fp": ("mixed f(int n) { function h = (: f($1 + 1) :); return evaluate(h, n); }", "return f(0);", True),
    "rec_call_other": ('int f(int n) { return call_other(this_object(), "f", n + 1) + 1; }', "return f(0);", True),
    "rec_map": ("mixed f(int n) { return map(({ n + 1 }), (: f :)); }", "return f(0);", True),
    "rec_filter": ("mixed f(int n) { return filter(({ n + 1 }), (: f :)); }", "return f(0);", True),
    "rec_sort": ("int f(int a, int b) { sort_array(({ 1, 2 }), (: f :)); return 0; }", "return f(0, 0);", True),
    "rec_locals": ("int f(int n) { int a, b, c, d, e, g, h, i, j, k; a = n; return f(a + 1) + b + c + d + e + g + h + i + j + k; }", "return f(0);", True),
    "rec_args": ("int f(int a, int b, int c, int d, int e, int g, int h, int i) { return f(a + 1, b, c, d, e, g, h, i) + 1; }", "return f(0, 1, 2, 3, 4, 5, 6, 7);", True),
    "rec_cross": ("int f(int n) { return call_other(\"/t/c04peer\", \"ping\", this_object(), n + 1); }", "return f(0);", True),
    "catch_retry": ("int f() { while (1) { } return 0; }", "int n; while (1) { catch(f()); n++; } return n;", True),
    "catch_error_loop": ("", 'int n; while (1) { catch(error("x\\n")); n++; } return n;', True),
    "catch_rec_retry": ("int f(int n) { return f(n + 1); }", "int n; while (1) { catch(f(0)); n++; } return n;", True),
    "catch_in_rec": ("int f(int n) { mixed e = catch(f(n + 1)); return f(n + 1); }", "return f(0);", True),
    "str_double_pluseq": ("", 'string s = "ab"; while (1) { s += s; } return s;', True),
    "str_double_plus": ("", 'string s = "ab"; while (1) { s = s + s; } return s;', True),
    "str_prepend": ("", 'string s = "ab"; while (1) { s = "xxxxxxxxxxxxxxxx" + s; } return s;', True),
    "str_int_append": ("", 'string s = ""; while (1) { s = s + 1234567890123; } return s;', True),
    "str_range_grow": ("", 'string s = "abcd"; while (1) { s[0..0] = s; } return s;', True),
    "str_global": ("string gs;", 'gs = "ab"; while (1) { gs += gs; } return gs;', True),
    "arr_double_pluseq": ("", "mixed *a = ({ 1, 2 }); while (1) { a += a; } return a;", True),
    "arr_double_plus": ("", "mixed *a = ({ 1, 2 }); while (1) { a = a + a; } return a;", True),
    "arr_range_grow": ("", "mixed *a = ({ 1, 2 }); while (1) { a[0..0] = a; } return a;", True),
    "arr_nest": ("", "mixed *a = ({ 1 }); while (1) { a = ({ a, a }); } return a;", True),
    "arr_append": ("", "mixed *a = ({ }); int i; while (1) { a += ({ i++ }); } return a;", True),
    "map_insert": ("", "mapping m = ([ ]); int i; while (1) { m[i] = i; i++; } return m;", True),
    "map_add": ("", "mapping m = ([ ]); int i; while (1) { m += ([ i : i ]); i++; } return m;", True),
    "map_str_keys": ("", 'mapping m = ([ ]); int i; while (1) { m["k" + i] = i; i++; } return m;', True),
    "buf_double": ("", "buffer b = allocate_buffer(4); while (1) { b += b; } return b;", True),
    "foreach_grow": ("", "mixed *a = ({ 1, 2, 3 }); foreach (mixed x in a) { a += a; } return a;", False),
    "alloc_array": ("", "return allocate(N);", False),
    "alloc_buffer": ("", "return allocate_buffer(N);", False),
    "alloc_mapping": ("", "mapping m = allocate_mapping(N); int i; for (i = 0; i < N; i++) m[i] = 1; return m;", False),
    "repeat_string": ("", 'return repeat_string("abc", N);', False),
    "sprintf_width": ("", 'return sprintf("%" + N + "s", "x");', False),
    "sprintf_star": ("", 'return sprintf("%*s|%-*d", N, "x", N, 5);', False),
    "sprintf_array": ("", 'return sprintf("%@s", mk(N));', False),
    "implode_big": ("", 'return implode(mk(N), "--------");', False),
    "explode_big": ("", 'return explode(repeat_string("a,", N), ",");', False),
    "replace_blowup": ("", 'return replace_string(repeat_string("a", N), "a", "bbbbbbbbbbbbbbbb");', False),
    "expand_varargs": ("varargs int vf(mixed *a...) { return sizeof(a); }", "mixed *a = allocate(N); return vf(a...);", False),
    "aggregate_big": ("", "mixed *a = allocate(N); return ({ a..., a..., a... });", False),
    "map_big": ("", "return map(allocate(N), (: $1 + 1 :));", False),
    "save_big": ("", 'return save_variable(mk(N));', False),
    "keys_values": ("", "mapping m = ([ ]); int i; for (i = 0; i < N; i++) m[i] = i; return keys(m) + values(m);", False),
    "unique_big": ("", "return unique_array(allocate(N), (: $1 :));", False),
    "capitalize_big": ("", 'return capitalize(repeat_string("ab", N)) + upper_case(repeat_string("ab", N));', False),
    "range_copy": ("", 'string s = repeat_string("ab", N); return s[1..] + s[0..<2];', False),
    "array_mult": ("", "mixed *a = allocate(N); return a + a + a + a;", False),
    "read_big": ("", 'return read_file("/big.txt");', False),
    "str_join_long": ("", 'string s = repeat_string("a", N); return s + s + s + s + s + s + s + s;', False),
    # literal aggregates: every element is pushed by its own instruction (string constant, local, global, number) before the aggregate is built
    "lit_array_strings": ("", 'return ({ REP<"s%d"> });', False),
    "lit_array_locals": ("mixed gl = 5;", 'int a = 1; string s = "x"; return ({ REP<a, s, gl, %d> });', False),
    "lit_mapping": ("mixed gl = 5;", 'string s = "x"; return ([ REP<"k%d":s> ]);', False),
    "lit_in_call": ("mixed gl = ({ 1 });", 'return sizeof(({ REP<gl> }));', False),
    "lit_in_rec": ("mixed gl = 7; mixed f(int d) { if (d < 3) return f(d + 1); return ({ REP<gl, d> }); }", 'return f(0);', False),
    # carryover arguments of add_action(): stored with the sentence and pushed again, all at once, when the verb is used
    "action_carryover": ("int fn(string a, mixed *rest...) { return 1 + sizeof(rest); }\n"
                         "int deep(int d, int a1, int a2, int a3, int a4, int a5, int a6, int a7, int a8, int a9) { if (d) return deep(d - 1, 1, 2, 3, 4, 5, 6, 7, 8, 9); return command(\"vv x\"); }",
                         'mixed *a = allocate(N); enable_commands(); add_action("fn", "vv", 0, a...); return deep(6, 1, 2, 3, 4, 5, 6, 7, 8, 9);', False),
    "add_eq_num": ("", 'mixed s = repeat_string("a", N); s += 12345; s += 1.5; return s;', False),
}
PEER = 'int ping(object o, int n) { return call_other(o, "f", n + 1); }\nvoid create() { }\n'

LIMIT_MARKERS = ["too long evaluation", "too deep recursion", "stack overflow", "too large", "too long", "maximum array size", "too big",
                 "illegal array size", "out of memory", "maximum", "exceed", "overflow", "limit", "result of array addition", "mapping too", "buffer too", "string too", "illegal buffer size", "can't catch"]

SIZE_MARKERS = ["too large", "too long", "maximum array size", "too big", "illegal array size", "result of array addition", "mapping too",
                "buffer too", "string too", "illegal buffer size", "maximum"]
UNCATCHABLE_MARKERS = ["too long evaluation", "too deep recursion", "stack overflow", "eval cost", "can't catch"]
shape_names = sorted(SHAPES)
cases = st.fixed_dictionaries(dict(shape=st.sampled_from(shape_names), catch=st.integers(0, 3), cfg=st.integers(0, 5),
                                   # a master without error_handler(): the driver then reports errors itself and makes no apply at the moment of the error
                                   master=st.sampled_from(["std", "std", "absent", "catching"]),
                                   n=st.sampled_from([1, 7, 8, 9, 31, 33, 100, 257, 1000, 2001, 5000, 20000, 70000, 100001, 1000000])))


def make_configs(rnd):
    out = []
    for _ in range(6):
        out.append(dict(MaxEvaluationCost=rnd.choice([300, 1000, 5000, 20000, 50000]), MaxCallDepth=rnd.choice([4, 8, 15, 30, 60]),
                        StackSize=rnd.choice([60, 100, 300, 1000, 1500]), MaxArraySize=rnd.choice([8, 50, 500, 2000]),
                        MaxMappingSize=rnd.choice([8, 50, 500, 2000]), MaxStringLength=rnd.choice([32, 200, 5000, 70000]),
                        MaxBufferSize=rnd.choice([32, 1000, 100000])))
    return out


def expand_rep(text, n):
    """REP<item> -> the item min(n, 4000) times (each %d replaced by its index), ten to a source line"""
    import re

    def rep(m):
        k = min(n, 4000)
        items = [m.group(1).replace("%d", str(i)) for i in range(k)]
        return "\n" + "".join("  " + ", ".join(items[j:j + 10]) + ",\n" for j in range(0, k, 10))
    return re.sub(r"REP<([^>]*)>", rep, text)


def render(case):
    helpers, body, _ = SHAPES[case["shape"]]
    body = body.replace("N", str(case["n"]))
    helpers = expand_rep(helpers, case["n"])
    body = expand_rep(body, case["n"])
    src = "void create() { seteuid(getuid()); }\nmixed g_e;\nmixed *mk(int n) { return map(allocate(n), (: \"abcdefgh\" :)); }\n" + helpers + "\nmixed inner() { " + body + " }\n"
    if case["catch"] == 0:
        src += "mixed run() { return inner(); }\n"
    else:
        # the innermost catch records what it caught in g_e; further catches are nested around it
        src += "mixed lvl1() { g_e = catch(inner()); return g_e; }\n"
        call = "lvl1()"
        for i in range(case["catch"] - 1):
            call = "catch(%s)" % call
        src += "mixed run() { mixed e = %s; return ({ \"caught\", g_e }); }\n" % call
    return src


class Pool:
    def __init__(self, ctx):
        self.ctx = ctx
        self.configs = make_configs(random.Random(ctx.hseed))
        self.workers = {}

    def get(self, i, master="std"):
        w = self.workers.get((i, master))
        if w is None:
            conf = {k: str(v) for k, v in self.configs[i].items()}
            files = {"t/c04peer.c": PEER, "big.txt": "0123456789abcdef\n" * 20000}
            if master == "absent":
                from ..worker import BASE_MUDLIB
                files["master.c"] = open(os.path.join(BASE_MUDLIB, "master.c")).read().replace("mixed error_handler(", "mixed error_handler_absent(")
            if master == "catching":
                # an error handler that protects its own logging with catch(), as mudlib handlers do: a catch completes while the error is being handled
                from ..worker import BASE_MUDLIB
                files["master.c"] = open(os.path.join(BASE_MUDLIB, "master.c")).read().replace(
                    "mixed error_handler(mapping m, int caught) {", "mixed error_handler(mapping m, int caught) {\n  mixed lerr = catch(last_error = \"\" + m[\"error\"]);")
            w = Worker(self.ctx.scratch("w%d%s" % (i, master)), conf=conf, timeout=20, mudlib_files=files)
            self.workers[(i, master)] = w
        return w

    def close(self):
        for w in self.workers.values():
            w.close()
        self.workers = {}


def size_of(v):
    """max sizes in a returned canonical value: (array, mapping, buffer, string)"""
    a = m = b = s = 0
    stack = [v]
    while stack:
        x = stack.pop()
        if isinstance(x, str):
            s = max(s, len(x))
        elif isinstance(x, tuple):
            if x[0] in ("a", "c"):
                a = max(a, len(x[1])); stack.extend(x[1])
            elif x[0] == "m":
                m = max(m, len(x[1]))
                for k, val in x[1]:
                    stack.append(k); stack.append(val)
            elif x[0] == "b":
                b = max(b, len(x[1]) // 2)
    return a, m, b, s


def evaluate_case(ctx, pool, case):
    cfg = pool.configs[case["cfg"]]
    w = pool.get(case["cfg"], case.get("master", "std"))
    src = render(case)
    w.write("t/c04.c", src)
    mec = cfg["MaxEvaluationCost"]
    budget = 2 * mec + 200
    if case.get("master") == "catching":
        # every catch level the uncatchable error passes on its way out runs the handler once more; this handler costs a few
        # instructions more than the standard one (under 16 per invocation), and there are at most MaxCallDepth levels
        budget += 16 * cfg["MaxCallDepth"]
    steps = [["load", "t/c04.c"], ["monitor", "reset"], ["monitor", "on"], ["budget", budget], ["call", "t/c04", "run"],
             ["monitor", "report"], ["monitor", "off"], ["regs"], ["monitor", "reset"], ["call", "/master", "get_root_uid"]]
    res = w.run(steps)
    info = "config %r\n%s\nrecords: %s" % (cfg, src, [r for r in res.recs if r.get("i", 0) >= 4][:6])
    if res.timed_out:
        ctx.inconclusive["timeout"] += 1
        return None, None
    for r in res.recs:
        if r.get("st") == "budget_exceeded":
            return ("evaluation-not-bounded:%s:catch%d" % (case["shape"], min(case["catch"], 1)),
                    "dispatched more than 2 x MaxEvaluationCost + 200 = %d instructions\n%s" % (budget, info)), None
    cr = res.crash()
    if cr:
        if cr[0] == "terminated" or "out of memory" in cr[2].lower():
            return ("driver-terminated:%s:%s" % (case["shape"], cr[1][:60]), info + "\n" + cr[2][-1500:]), None
        # a memory error while a limit should have stopped the evaluation: the evaluation left its physical bounds
        return ("memory-error:%s:%s" % (case["shape"], cr[1][:60]), info + "\n" + cr[2][:14000]), None
    ld = res.step(0)
    if not ld or ld.get("st") != "ok":
        return ("shape-rejected:" + case["shape"], info + res.stderr[-800:]), None
    r = res.step(4) or {}
    mon = res.step(5, "monitor") or {}
    regs = res.step(7, "regs") or {}
    probe = res.step(9) or {}
    st_ = r.get("st")
    msg = r.get("msg", "").lower()
    if st_ == "err" and not msg.strip():
        # the master's error_handler could not run (e.g. no call depth left): the driver wrote the error to the debug log
        msg = res.stderr.lower()
    hit = None
    if st_ == "err":
        for mk in LIMIT_MARKERS:
            if mk in msg:
                hit = mk
                break
    # (ii) physical depth bounds
    if mon.get("max_csp", 0) >= cfg["MaxCallDepth"]:
        return ("call-depth-exceeded:" + case["shape"], "max control stack index %d >= MaxCallDepth %d\n%s" % (mon["max_csp"], cfg["MaxCallDepth"], info)), None
    if mon.get("max_sp", 0) >= cfg["StackSize"] + 5:
        return ("value-stack-exceeded:" + case["shape"], "max value stack index %d >= StackSize %d\n%s" % (mon["max_sp"], cfg["StackSize"], info)), None
    # (iii) value sizes
    sizes = dict(arr=mon.get("max_arr", 0), map=mon.get("max_map", 0), buf=mon.get("max_buf", 0), str=mon.get("max_str", 0))
    if st_ == "val":
        a, m, b, s = size_of(unjson(r["v"]))
        sizes = dict(arr=max(sizes["arr"], a), map=max(sizes["map"], m), buf=max(sizes["buf"], b), str=max(sizes["str"], s))
    for key, lim in (("arr", "MaxArraySize"), ("map", "MaxMappingSize"), ("buf", "MaxBufferSize"), ("str", "MaxStringLength")):
        if sizes[key] > cfg[lim]:
            return ("size-limit-exceeded:%s:%s" % (lim, case["shape"]), "a value of size %d exceeds %s = %d\n%s" % (sizes[key], lim, cfg[lim], info)), None
    # (iv) a never-ending shape must come back as a limit error that no catch swallowed
    if SHAPES[case["shape"]][2]:
        caught_size_error = False
        if st_ == "val" and case["catch"] > 0:
            v = unjson(r["v"])
            txt = v[1][1] if isinstance(v, tuple) and v[0] == "a" and len(v[1]) == 2 and isinstance(v[1][1], str) else ""
            low = txt.lower()
            caught_size_error = any(mk in low for mk in SIZE_MARKERS) and not any(mk in low for mk in UNCATCHABLE_MARKERS)
        if caught_size_error:
            hit = "caught-size-error"
        elif st_ != "err":
            return ("limit-error-swallowed:%s:catch%d" % (case["shape"], min(case["catch"], 1)),
                    "a never-ending evaluation returned %s to the driver instead of a limit error\n%s" % (st_, info)), None
        if hit is None:
            return ("unexpected-error:%s" % case["shape"], "error is not a limit error: %r\n%s" % (msg, info)), None
    # control is back in the driver and the next evaluation works
    if regs.get("sp") != -1 or regs.get("csp") != -1:
        return ("stack-not-unwound:" + case["shape"], "registers after the evaluation: %r\n%s" % (regs, info)), None
    if probe.get("st") != "val":
        return ("driver-unusable-after:" + case["shape"], "probe call gave %r\n%s" % (probe, info)), None
    return None, dict(hit=hit, st=st_, count=mon.get("count", 0))


_pools = {}


def check(ctx, case):
    pool = _pools.setdefault(ctx.rundir, None) or _pools.__setitem__(ctx.rundir, Pool(ctx)) or _pools[ctx.rundir]
    f, info = evaluate_case(ctx, pool, case)
    if f:
        ctx.evaluations += 1
        ctx.fail(f[0], dict(case=case, config=pool.configs[case["cfg"]]), f[1])
        return
    if info is None:
        ctx.case_done(None, ["not-executed"])
        return
    cfg = pool.configs[case["cfg"]]
    key = None
    if info["hit"]:
        key = runner.khash([case["shape"], info["hit"], case["catch"], sorted(cfg.items())])
    ctx.case_done(key, ["shape:" + case["shape"], "outcome:" + str(info["st"]), "limit:" + str(info["hit"]), "catch:%d" % case["catch"]],
                  sample=dict(shape=case["shape"], catch=case["catch"], n=case["n"], config=cfg, limit_hit=info["hit"], instructions=info["count"]))


def shard_main(ctx):
    from hypothesis import given
    n = {"quick": 2000, "thorough": 40000}[ctx.tier]

    @given(cases)
    def test(case):
        check(ctx, case)

    try:
        runner.run_hypothesis(ctx, test, n)
    finally:
        p = _pools.pop(ctx.rundir, None)
        if p:
            p.close()


def replay(ctx, case):
    # a replay carries its own configuration
    pool = Pool(ctx)
    pool.configs = [case["config"]] * 6
    try:
        f, _ = evaluate_case(ctx, pool, case["case"])
        return f
    finally:
        pool.close()
