"""C10 - call_out fires exactly once, on time, and can be cancelled.

Histories of call_out / remove_call_out / find_call_out (by name and by handle) issued at top level and
from inside callbacks, interleaved with ticks of various spacings, run through the *real* backend()
loop (virtual clock, scripted ticks). Oracle: a reference scheduler over (id, due time) entries."""
from hypothesis import strategies as st

from .. import runner
from ..worker import Worker, arg, unjson

LEVEL = "exploration"
RULE = ("cases = histories of 4-30 operations over 3 owner objects and 8 callback ids: call_out(by name | by function pointer, delay from "
        "{-5,0,1,2,30,31,32,33,63,64,65,200}), remove/find by name or handle, remove all, destruct of an owner, callbacks that raise errors, "
        "callbacks that schedule / remove / find other call_outs, ticks spaced {1,2,3,31,32,33,100} s, executed by the real backend loop. "
        "non-trivial = the history has a delay >= 32, or an operation issued from inside a callback, or a tick gap > 1; distinct = history hash")
ASSUMPTIONS = ["time is the interposed virtual clock; a tick advances it and invokes the real heart-beat timer callback",
               "order of callbacks within one tick is not specified: firings are compared as a multiset per tick",
               "a removal issued from a callback in the same tick in which its target is due may or may not prevent the firing"]
NONTRIVIAL_FLOOR = {"quick": 200, "thorough": 3000}

DELAYS = [-5, 0, 1, 2, 3, 5, 30, 31, 32, 33, 34, 63, 64, 65, 96, 200]
GAPS = [1, 1, 1, 2, 3, 31, 32, 33, 100]
NOWNERS = 3
NIDS = 8

BASE = r'''
mixed *log = ({ });
mapping script = ([ ]);
mapping handles = ([ ]);
mapping faulty = ([ ]);
void create() { seteuid(getuid()); }
void fired(int id, mixed a1, mixed a2);
mixed do_op(string kind, int id, int delay, string mode) {
  switch (kind) {
  case "co":
    if (mode == "fp") handles[id] = call_out((: fired, id, "fp" :), delay);
    else handles[id] = call_out("cb" + id, delay, "arg" + id, id * 7);
    return handles[id];
  case "rm_name": return remove_call_out("cb" + id);
  case "rm_handle": return undefinedp(handles[id]) ? -2 : remove_call_out(handles[id]);
  case "find_name": return find_call_out("cb" + id);
  case "find_handle": return undefinedp(handles[id]) ? -2 : find_call_out(handles[id]);
  case "rm_all": return remove_call_out();
  case "info": return sizeof(call_out_info());
  }
  return -99;
}
void add_script(int when_id, string kind, int id, int delay, string mode) {
  if (!script[when_id]) script[when_id] = ({ });
  script[when_id] += ({ ({ kind, id, delay, mode }) });
}
void set_faulty(int id) { faulty[id] = 1; }
void fired(int id, mixed a1, mixed a2) {
  mixed *acts = script[id];
  mixed *res = ({ });
  int i;
  if (acts) for (i = 0; i < sizeof(acts); i++) res += ({ do_op(acts[i][0], acts[i][1], acts[i][2], acts[i][3]) });
  log += ({ ({ time(), id, a1, a2, res }) });
  if (faulty[id]) error("callback fault " + id + "\n");
}
void cb0(mixed a, mixed b) { fired(0, a, b); }
void cb1(mixed a, mixed b) { fired(1, a, b); }
void cb2(mixed a, mixed b) { fired(2, a, b); }
void cb3(mixed a, mixed b) { fired(3, a, b); }
void cb4(mixed a, mixed b) { fired(4, a, b); }
void cb5(mixed a, mixed b) { fired(5, a, b); }
void cb6(mixed a, mixed b) { fired(6, a, b); }
void cb7(mixed a, mixed b) { fired(7, a, b); }
mixed *getlog() { return log; }
'''

op_kinds = st.sampled_from(["co", "co", "co", "rm_name", "rm_handle", "find_name", "find_handle", "rm_all", "info"])


@st.composite
def op(draw, inner=False):
    k = draw(op_kinds)
    if inner and k in ("rm_all", "info"):
        k = "co"
    return dict(kind=k, id=draw(st.integers(0, NIDS - 1)), delay=draw(st.sampled_from(DELAYS)), mode=draw(st.sampled_from(["name", "name", "fp"])))


@st.composite
def histories(draw):
    n = draw(st.integers(4, 30))
    events = []
    for _ in range(n):
        k = draw(st.integers(0, 11))
        if k <= 4:
            e = draw(op())
            e["ev"] = "op"; e["owner"] = draw(st.integers(0, NOWNERS - 1))
        elif k <= 7:
            e = dict(ev="tick", dt=draw(st.sampled_from(GAPS)))
        elif k == 8:
            e = draw(op(inner=True))
            e["ev"] = "script"; e["owner"] = draw(st.integers(0, NOWNERS - 1)); e["when"] = draw(st.integers(0, NIDS - 1))
        elif k == 9:
            e = dict(ev="faulty", owner=draw(st.integers(0, NOWNERS - 1)), id=draw(st.integers(0, NIDS - 1)))
        elif k == 10:
            e = dict(ev="destruct", owner=draw(st.integers(0, NOWNERS - 1)))
        else:
            e = dict(ev="tick", dt=1)
        events.append(e)
        if draw(st.integers(0, 7)) == 0:
            # a burst that puts several entries into ONE wheel slot (delays congruent modulo 32), then touches one of them:
            # chains inside a slot carry relative deltas, which is where removal and insertion arithmetic lives
            base = draw(st.integers(1, 31))
            owner = draw(st.integers(0, NOWNERS - 1))
            ids = draw(st.lists(st.integers(0, NIDS - 1), min_size=3, max_size=4, unique=True))
            turns = draw(st.permutations([0, 1, 2, 3]))
            for j, i_ in enumerate(ids):
                events.append(dict(ev="op", kind="co", id=i_, delay=base + 32 * turns[j], mode=draw(st.sampled_from(["name", "name", "fp"])), owner=owner))
            events.append(dict(ev="op", kind=draw(st.sampled_from(["rm_handle", "rm_handle", "rm_name", "find_handle"])), id=draw(st.sampled_from(ids)), delay=0, mode="name", owner=owner))
            if draw(st.booleans()):
                events.append(dict(ev="op", kind=draw(st.sampled_from(["find_handle", "find_name", "rm_handle"])), id=draw(st.sampled_from(ids)), delay=0, mode="name", owner=owner))
    # always end with enough ticks to flush everything that is still pending
    events += [dict(ev="tick", dt=100), dict(ev="tick", dt=100), dict(ev="tick", dt=33)]
    return dict(events=events)


T0 = 1000000000


class Entry:
    def __init__(self, owner, id_, due, created, mode):
        self.owner, self.id, self.due, self.created, self.mode = owner, id_, due, created, mode
        self.state = "pending"      # pending | fired | removed | dropped
        self.removed_at = None
        self.removed_in_cb = False


class Model:
    """reference scheduler: entries (owner, id) -> list of Entry (one id may be scheduled again after it fired or was removed)"""
    def __init__(self):
        self.now = T0
        self.entries = []
        self.alive = [True] * NOWNERS
        self.script = {}
        self.faulty = set()
        self.handle_of = {}      # (owner, id) -> latest Entry (the LPC side keeps the latest handle per id)
        self.fuzzy = set()       # (owner, id) whose by-name removal was ambiguous (several identical entries): not judged individually any more

    def pending(self, owner, id_, mode=None):
        return [e for e in self.entries if e.owner == owner and e.id == id_ and e.state == "pending" and (mode is None or e.mode == mode)]


def build_steps(case):
    steps = [["backend"]]
    marks = []     # per step: index into events (or None)
    alive = [True] * NOWNERS
    for i, e in enumerate(case["events"]):
        if e["ev"] == "tick":
            steps.append(["tick", str(e["dt"])]); marks.append(None)
            steps.append(["cycle"]); marks.append(None)
            continue
        ob = "t/c10_%d" % e["owner"]
        if e["ev"] == "op":
            steps.append(["call", ob, "do_op", arg(e["kind"]), arg(e["id"]), arg(e["delay"]), arg(e["mode"])]); marks.append(i)
        elif e["ev"] == "script":
            steps.append(["call", ob, "add_script", arg(e["when"]), arg(e["kind"]), arg(e["id"]), arg(e["delay"]), arg(e["mode"])]); marks.append(None)
        elif e["ev"] == "faulty":
            steps.append(["call", ob, "set_faulty", arg(e["id"])]); marks.append(None)
        elif e["ev"] == "destruct":
            if alive[e["owner"]]:
                # keep the log before the object goes away
                steps.append(["call", ob, "getlog"]); marks.append(("log", e["owner"]))
                steps.append(["destruct", ob]); marks.append(None)
                alive[e["owner"]] = False
    for k in range(NOWNERS):
        if alive[k]:
            steps.append(["call", "t/c10_%d" % k, "getlog"]); marks.append(("log", k))
    steps.append(["endbackend"]); marks.append(None)
    return steps, marks


def evaluate_case(ctx, w, case):
    pre = [["load", "t/c10_%d.c" % k] for k in range(NOWNERS)]
    steps, marks = build_steps(case)
    res = w.run(pre + steps)
    if res.timed_out:
        ctx.inconclusive["timeout"] += 1
        return None, None
    cr = res.crash()
    if cr:
        return ("crash:" + cr[1][:70], "history %r\n%s" % (case["events"], cr[2][:2500])), None
    if not res.step(len(pre) + len(steps) - 1, "backend_returned"):
        return ("backend-did-not-return", "history %r\nrecords %r" % (case["events"], res.recs[-5:])), None
    base = len(pre) + 1
    # --- collect the implementation's view
    logs = {k: [] for k in range(NOWNERS)}
    opres = {}
    for si, mk in enumerate(marks):
        r = res.step(base + si)
        if mk is None or r is None:
            continue
        if isinstance(mk, tuple):
            if r.get("st") == "val":
                logs[mk[1]] = unjson(r["v"])[1]
        else:
            opres[mk] = r
    # --- replay the history on the reference scheduler, checking every observable
    m = Model()
    fired_impl = {}      # (owner, time) -> list of (id, a1, a2, res)
    for k, lg in logs.items():
        for rec in lg:
            t, id_, a1, a2, rs = rec[1]
            fired_impl.setdefault((k, t), []).append((id_, a1, a2, rs[1] if isinstance(rs, tuple) else rs))
    seen_ticks = set()

    def do_op(owner, e, in_cb, observed):
        """apply op e of owner to the model; observed = value the implementation returned (or None if unknown).
        returns error string or None"""
        kind, id_ = e["kind"], e["id"]
        if kind == "co":
            ent = Entry(owner, id_, m.now + max(1, e["delay"]), m.now, e["mode"])
            m.entries.append(ent)
            m.handle_of[(owner, id_)] = ent
            if observed is not None and (not isinstance(observed, int) or observed <= 0):
                return "call_out returned %r" % (observed,)
            return None
        if kind in ("rm_name", "find_name"):
            cands = m.pending(owner, id_, "name")
            adm = {c.due - m.now for c in cands} or {-1}
            if kind == "rm_name" and cands:
                # which of several same-named entries goes is unspecified: use the observation to pick it
                pick = [c for c in cands if observed is None or c.due - m.now == observed] or cands
                if len(pick) > 1:
                    m.fuzzy.add((owner, id_))       # indistinguishable candidates: this (owner, id) is only checked collectively from now on
                pick[0].state = "removed"; pick[0].removed_at = m.now; pick[0].removed_in_cb = in_cb
            if observed is not None and observed not in adm:
                return "%s(cb%d) returned %r, admissible %r (now=%d)" % (kind, id_, observed, sorted(adm), m.now - T0)
            return None
        if kind in ("rm_handle", "find_handle"):
            ent = m.handle_of.get((owner, id_))
            if ent is None:
                return None if observed in (None, -2) else "handle op without handle returned %r" % (observed,)
            if (owner, id_) in m.fuzzy:
                if kind == "rm_handle" and ent.state == "pending" and observed != -1:
                    ent.state = "removed"; ent.removed_at = m.now; ent.removed_in_cb = in_cb
                return None
            exp = ent.due - m.now if ent.state == "pending" else -1
            if kind == "rm_handle" and ent.state == "pending":
                ent.state = "removed"; ent.removed_at = m.now; ent.removed_in_cb = in_cb
            if observed is not None and observed != exp:
                return "%s(id %d) returned %r, expected %r (now=%d, due=%d, state=%s)" % (kind, id_, observed, exp, m.now - T0, ent.due - T0, ent.state)
            return None
        if kind == "rm_all":
            for c in m.entries:
                if c.owner == owner and c.state == "pending":   # by name and by function pointer (docs/efuns/remove_call_out.md)
                    c.state = "removed"; c.removed_at = m.now; c.removed_in_cb = in_cb
            return None
        if kind == "info":
            exp = len([c for c in m.entries if c.state == "pending" and m.alive[c.owner]])
            if observed is not None and observed != exp and all(m.alive):
                return "sizeof(call_out_info()) = %r, expected %d" % (observed, exp)
            return None
        return None

    for i, e in enumerate(case["events"]):
        if e["ev"] == "script":
            if m.alive[e["owner"]]:
                m.script.setdefault((e["owner"], e["when"]), []).append(e)
        elif e["ev"] == "faulty":
            if m.alive[e["owner"]]:
                m.faulty.add((e["owner"], e["id"]))
        elif e["ev"] == "destruct":
            if m.alive[e["owner"]]:
                m.alive[e["owner"]] = False
                for c in m.entries:
                    if c.owner == e["owner"] and c.state == "pending":
                        c.state = "dropped"
        elif e["ev"] == "op":
            if not m.alive[e["owner"]]:
                continue
            r = opres.get(i)
            obs = None
            if r is not None and r.get("st") == "val":
                obs = unjson(r["v"])
            elif r is not None and r.get("st") == "err":
                return ("op-raised-error:" + e["kind"], "event %d %r raised %r\nhistory %r" % (i, e, r.get("msg"), case["events"])), None
            err = do_op(e["owner"], e, False, obs)
            if err:
                return ("wrong-result:" + e["kind"], "event %d %r: %s\nhistory %r" % (i, e, err, case["events"])), None
        elif e["ev"] == "tick":
            prev = m.now
            m.now += e["dt"]
            seen_ticks.add(m.now)
            # entries due in (prev, now] fire in due order; callbacks run their scripts
            while True:
                due = sorted([c for c in m.entries if c.state == "pending" and c.due <= m.now], key=lambda c: c.due)
                if not due:
                    break
                c = due[0]
                exp_args = ("fp", 0) if c.mode == "fp" else ("arg%d" % c.id, c.id * 7)
                got = [x for x in fired_impl.get((c.owner, m.now), []) if x[0] == c.id and (x[1], x[2]) == exp_args]
                if not got:
                    if (c.owner, c.id) in m.fuzzy:
                        c.state = "removed"; c.removed_at = m.now; c.removed_in_cb = False
                        continue
                    # allowed only if something in this very tick removed it (lenient same-tick rule is handled below)
                    c.state = "missed"
                    continue
                rec = got[0]
                fired_impl[(c.owner, m.now)].remove(rec)
                c.state = "fired"
                exp_args = ("fp", 0) if c.mode == "fp" else ("arg%d" % c.id, c.id * 7)
                if (rec[1], rec[2]) != exp_args:
                    return ("wrong-arguments", "call_out id %d of owner %d fired with (%r, %r), expected %r\nhistory %r" % (c.id, c.owner, rec[1], rec[2], exp_args, case["events"])), None
                acts = m.script.get((c.owner, c.id), [])
                obs_list = rec[3] if isinstance(rec[3], list) else []
                for ai, a in enumerate(acts):
                    obs = obs_list[ai] if ai < len(obs_list) else None
                    err = do_op(c.owner, a, True, obs if isinstance(obs, int) else None)
                    if err and a["kind"] not in ("rm_name", "find_name", "rm_handle", "find_handle", "info"):
                        return ("wrong-result-in-callback:" + a["kind"], "%s\nhistory %r" % (err, case["events"])), None
            # judge entries the implementation did not fire in this tick
            for c in m.entries:
                if c.state == "missed":
                    # order inside one tick is unspecified: another callback of the same owner that fired in this tick may
                    # have removed it first
                    killers = [d for d in m.entries if d.owner == c.owner and d.state == "fired" and d.due <= m.now and d.due > prev
                               and any(a["kind"] in ("rm_all",) or (a["kind"] in ("rm_name", "rm_handle") and a["id"] == c.id)
                                       for a in m.script.get((d.owner, d.id), []))]
                    if killers:
                        c.state = "removed"; c.removed_at = m.now; c.removed_in_cb = True
                        continue
                    return ("missed-or-late", "call_out id %d of owner %d (created at +%d, due +%d, mode %s) did not fire in the tick to +%d\nlogs %r\nhistory %r" % (
                        c.id, c.owner, c.created - T0, c.due - T0, c.mode, m.now - T0, logs, case["events"])), None
            # entries removed from a callback in this tick while due in this tick: either outcome is fine
            for c in m.entries:
                if c.state == "removed" and c.removed_in_cb and c.removed_at == m.now and c.due <= m.now:
                    extra = [x for x in fired_impl.get((c.owner, m.now), []) if x[0] == c.id]
                    if extra:
                        fired_impl[(c.owner, m.now)].remove(extra[0])
    # anything the implementation fired that the model did not account for: early, duplicate, removed or ghost firing
    # (owner, id) pairs whose removal was ambiguous: exactly as many firings as the model has entries is all that is asked
    for (own, t), v in list(fired_impl.items()):
        fired_impl[(own, t)] = [x for x in v if (own, x[0]) not in m.fuzzy or len([c for c in m.entries if c.owner == own and c.id == x[0] and c.state == "removed" and c.removed_at is not None]) == 0]
    left = {k: v for k, v in fired_impl.items() if v}
    if left:
        return ("unexpected-firing", "firings not explained by the reference scheduler (owner, time-T0): %r\nhistory %r" % (
            {(k[0], k[1] - T0): [(x[0], x[1], x[2]) for x in v] for k, v in left.items()}, case["events"])), None
    return None, m


def nontrivial(case):
    inner = any(e["ev"] == "script" for e in case["events"])
    big = any(e["ev"] in ("op", "script") and e["kind"] == "co" and e["delay"] >= 32 for e in case["events"])
    gap = any(e["ev"] == "tick" and e["dt"] > 1 for e in case["events"][:-3])
    return inner or big or gap


_workers = {}


def get_worker(ctx):
    w = _workers.get(ctx.rundir)
    if w is None:
        files = {"t/c10base.c": BASE}
        for k in range(NOWNERS):
            files["t/c10_%d.c" % k] = 'inherit "/t/c10base";\n'
        w = Worker(ctx.scratch("w"), timeout=20, mudlib_files=files)
        _workers[ctx.rundir] = w
    return w


def close_workers(ctx):
    w = _workers.pop(ctx.rundir, None)
    if w:
        w.close()


def check(ctx, case):
    f, m = evaluate_case(ctx, get_worker(ctx), case)
    if f:
        ctx.evaluations += 1
        ctx.fail(f[0], case, f[1])
        return
    if m is None:
        ctx.case_done(None, ["not-executed"])
        return
    cl = []
    if any(e["ev"] == "script" for e in case["events"]):
        cl.append("op-from-callback")
    if any(e["ev"] == "destruct" for e in case["events"]):
        cl.append("owner-destructed")
    if any(e["ev"] == "faulty" for e in case["events"]):
        cl.append("callback-error")
    if any(c.state == "fired" and c.due - c.created >= 32 for c in m.entries):
        cl.append("fired-after>=32s")
    if any(c.state == "removed" for c in m.entries):
        cl.append("removed")
    cl.append("fired:%d" % min(len([c for c in m.entries if c.state == "fired"]), 10))
    ctx.case_done(runner.khash(case) if nontrivial(case) else None, cl, sample=[e for e in case["events"]][:12])


def shard_main(ctx):
    from hypothesis import given
    n = {"quick": 1500, "thorough": 30000}[ctx.tier]

    @given(histories())
    def test(case):
        check(ctx, case)

    try:
        runner.run_hypothesis(ctx, test, n)
    finally:
        close_workers(ctx)


def replay(ctx, case):
    try:
        f, _ = evaluate_case(ctx, get_worker(ctx), case)
        return f
    finally:
        close_workers(ctx)
