"""C05 - after any LPC error the machine state is what it was before the failed call.

A frame-stack description (1-8 frames of kinds: plain call, partially built aggregate, call_other, peer object,
function pointers, efun callbacks map/filter/sort_array/unique_array, foreach, catch, and applies made by efuns:
init via move_object, id via present, create via clone, move_or_destruct via destruct, catch_tell via
tell_object) is interpreted by one LPC program, so a new stack shape needs no recompilation. At the bottom sits
an error site: error(), throw(), division by zero, type error, bounds error, bad efun argument, too deep
recursion, evaluation cost - or an injected fault at the k-th instruction (H1 hook: catchable error; or
eval_cost = k: uncatchable). Oracle: register snapshot equality around the harness call, the value catch
yields, the progress counter, and a fixed probe evaluation afterwards."""
from hypothesis import strategies as st

from .. import runner
from ..worker import Worker, arg, unjson

LEVEL = "fault_enumeration"
RULE = ("cases = (frame-kind sequence of length 1-8 over 19 kinds, error site among 10 kinds or an injected fault); for injected faults the instruction "
        "index k is enumerated over the fault-free run (all k when it has <= 150 instructions or in the thorough tier, else 40 evenly spread), both as "
        "catchable error and as uncatchable evaluation-cost exhaustion. non-trivial = the error was raised below >= 2 frames of which >= 1 is not a "
        "plain call; distinct = (frame-kind sequence, site kind, catch position, k)")
ASSUMPTIONS = ["registers compared: sp, csp, current_object, previous_ob, current_prog, command_giver, current_interactive, caller_type, index offsets, error "
               "state, and through the H2 accessors the error-context depth, in_error flags, command-giver save-stack depth, num_objects_this_thread, restrict_destruct",
               "the snapshot after the call is taken after the harness's own restore_context/pop_context, exactly where backend() continues"]
NONTRIVIAL_FLOOR = {"quick": 300, "thorough": 5000}

KINDS = ["call", "inh", "inh", "agg", "call_other", "peer", "fp", "expr_fp", "bound_fp", "map", "filter", "sort", "unique", "foreach", "catch", "catch",
         "init", "id", "create", "mod", "catch_tell", "implode_fp"]
SITES = ["error", "inh_error", "inh_error", "throw", "div0", "type", "bounds", "badarg", "deep", "evalcost", "callother0", "sscanf", "deepmiss"]
UNCATCHABLE = {"deep", "evalcost", "deepmiss"}
EXPECT = {"error": "boom", "inh_error": "boom", "div0": "ivision", "type": "", "bounds": "ounds", "badarg": "ad argument", "callother0": "", "sscanf": "", "inject": "injected fault"}

PA = 'int pa_g = 11;\nint pa_fn() { return pa_g; }\n'
PB = r'''
int pb_g1 = 21;
int pb_g2 = 22;
// a frame of the second inherited program (its function and variable index offsets differ from the inheriting program's)
mixed pb_relay(int i) { pb_g1++; return call_other(this_object(), "step", i); }
mixed pb_fail() { pb_g2++; error("boom\n"); }
int pb_sum() { return pb_g1 * 1000 + pb_g2; }
'''
MAIN = r'''
inherit "/t/c05pa";
inherit "/t/c05pb";
string *plan = ({ });
int nplan;
int lfun_probe() { return 4711; }
string site = "none";
int prog, level, zero, cgbad;
mixed *caught = ({ });
void create() { seteuid(getuid()); }
mixed step(int i);
mixed hook() { return step(level + 1); }           // re-entry point for applies made by efuns
// "deepmiss": the call that runs out of call depth is a call_other whose name is not in the apply cache yet, after the cache
// was filled with entries for names nothing else refers to
void fill() { int i; for (i = 0; i < 6000; i++) call_other(this_object(), "nf_" + i); }
DMCHAIN
mixed fail() {
  mixed a = 1, b = ({ });
  switch (site) {
  case "none": return 1;
  case "error": error("boom\n");
  case "inh_error": return pb_fail();
  case "throw": throw(({ 1, "thrown" }));
  case "div0": return 10 / zero;
  case "type": return a + b;
  case "bounds": return b[zero + 1];
  case "badarg": return keys(a);
  case "callother0": return call_other(zero, "x");
  case "sscanf": return sscanf(a, b);
  case "deep": return fail();
  case "deepmiss": fill(); return dm0();
  case "evalcost": while (1) a++;
  }
  return 0;
}
int cmp(mixed x, mixed y) { step(level + 1); return 0; }
mixed step(int i) {
  mixed r, e;
  object o, room;
  prog++;
  if (i >= sizeof(plan)) return fail();
  level = i;
  switch (plan[i]) {
  case "call": return ({ "call", step(i + 1) });
  case "inh": return ({ "inh", pb_relay(i + 1) });
  case "agg": return ({ "agg", "tmp", 3.5, ([ "k": ({ 1 }) ]), step(i + 1) })[4..4] + ({ "agg" });
  case "call_other": return ({ "call_other", call_other(this_object(), "step", i + 1) });
  case "peer": return ({ "peer", "/t/c05peer"->relay() });
  case "fp": return ({ "fp", evaluate((: step :), i + 1) });
  case "expr_fp": return ({ "expr_fp", evaluate((: step($1) :), i + 1) });
  case "bound_fp": return ({ "bound_fp", evaluate((: step, i + 1 :)) });
  case "map": return ({ "map", map(({ i + 1 }), (: step :)) });
  case "filter": r = filter(({ i + 1 }), (: step :)); return ({ "filter", sizeof(r) });
  case "sort": sort_array(({ 3, 1 }), (: cmp :)); return ({ "sort" });
  case "unique": unique_array(({ i + 1 }), (: step :)); return ({ "unique" });
  case "implode_fp": return ({ "implode_fp", implode(({ 1, 2 }), (: hook() ? $1 + $2 : $1 + $2 :)) });
  case "foreach": r = ({ }); foreach (int x in ({ 7 })) { r += ({ step(i + 1) }); } return ({ "foreach", r });
  case "catch":
    o = this_player(); room = previous_object();
    e = catch(r = step(i + 1));
    if (e && (sizeof(plan) != nplan || lfun_probe() != 4711 || pa_fn() != 11)) cgbad += 10000;   // own globals, local and inherited calls
    if (e && this_player() != o) cgbad++;             // command giver as at the catch point
    if (e && previous_object() != room) cgbad += 100; // and the caller too
    caught += ({ e }); return ({ "caught", e, r });
  case "init":
    room = load_object("/t/c05room"); o = new("/t/c05thing"); o->become_living();
    "/t/c05hookctl"->arm("init");
    o->do_move(room);                 // room->init() and the thing's init() run: the room's init re-enters
    return ({ "init" });
  case "id": room = load_object("/t/c05room"); o = new("/t/c05thing"); o->do_move(room); "/t/c05hookctl"->arm("id"); present("marker", room); return ({ "id" });
  case "create": "/t/c05hookctl"->arm("create"); o = new("/t/c05thing"); return ({ "create" });
  case "mod": room = new("/t/c05room"); o = new("/t/c05thing"); o->do_move(room); "/t/c05hookctl"->arm("mod"); destruct(room); return ({ "mod" });
  case "catch_tell": o = new("/t/c05thing"); "/t/c05hookctl"->arm("catch_tell"); tell_object(o, "hi"); return ({ "catch_tell" });
  }
  return ({ "unknown" });
}
mixed run(string p, string s) {
  plan = explode(p, ",") - ({ "" });
  nplan = sizeof(plan);
  site = s; prog = 0; level = 0; cgbad = 0; caught = ({ });
  return step(0);
}
mixed state() { return ({ prog, caught, cgbad }); }
mixed probe() {
  // a fixed evaluation touching calls, catch, containers, load and destruct: must behave as in a fresh driver
  mixed e, r;
  object o;
  "/t/c05hookctl"->arm("");      // a hook armed by the failed evaluation is one of its legitimate side effects: disarm
  e = catch(error("probe\n"));
  o = new("/t/c05thing");
  r = ({ e, map(({ 1, 2, 3 }), (: $1 * 2 :)), objectp(o), sizeof(call_stack(1)), implode(({ "a", "b" }), "-") });
  destruct(o);
  return r;
}
'''
MAIN = MAIN.replace("DMCHAIN", "\n".join('mixed dm%d() { return call_other(this_object(), "dm%d"); }' % (i, i + 1) for i in range(120)) + "\nmixed dm120() { return 1; }")
PEER = 'void create() { seteuid(getuid()); }\nmixed relay() { return "/t/c05"->hook(); }\n'
HOOKCTL = 'void create() { seteuid(getuid()); }\nstring armed = "";\nvoid arm(string h) { armed = h; }\nint take(string h) { if (armed != h) return 0; armed = ""; return 1; }\n'
ROOM = 'void create() { seteuid(getuid()); }\nvoid init() { if ("/t/c05hookctl"->take("init")) "/t/c05"->hook(); }\n'
THING = r'''
void create() { seteuid(getuid()); if ("/t/c05hookctl"->take("create")) "/t/c05"->hook(); }
void become_living() { enable_commands(); }
void do_move(mixed d) { move_object(d); }
int id(string s) { if (s == "marker" && "/t/c05hookctl"->take("id")) "/t/c05"->hook(); return 0; }
int move_or_destruct(object d) { if ("/t/c05hookctl"->take("mod")) "/t/c05"->hook(); return 0; }
void catch_tell(string s) { if ("/t/c05hookctl"->take("catch_tell")) "/t/c05"->hook(); }
'''


@st.composite
def cases(draw):
    plan = draw(st.lists(st.sampled_from(KINDS), min_size=1, max_size=8))
    # a second destruct() from inside a move_or_destruct hook is refused by the driver by design: keep the first only
    seen = False
    for i, k in enumerate(plan):
        if k == "mod":
            if seen:
                plan[i] = "call"
            seen = True
    site = draw(st.sampled_from(SITES + ["inject", "inject", "inject_cost"]))
    # a third of the cases run under a master whose error_handler() protects its own logging with catch(): a catch completes while the
    # error is being handled
    return dict(plan=plan, site=site, kseed=draw(st.integers(0, 10 ** 6)), master=draw(st.sampled_from(["std", "std", "catching"])))


REGKEYS = ["sp", "csp", "cur", "prev", "prog", "cg", "ci", "chb", "caller_type", "fio", "vio", "es", "ecd", "ef", "cgsd", "nott", "rd"]
FILES = {"t/c05pa.c": PA, "t/c05pb.c": PB, "t/c05.c": MAIN, "t/c05peer.c": PEER, "t/c05hookctl.c": HOOKCTL, "t/c05room.c": ROOM, "t/c05thing.c": THING}


def expected_value(plan, site):
    """value run() returns when the innermost catch catches the site's error: wrappers from frame 0 down to that catch"""
    ci = max(i for i, k in enumerate(plan) if k == "catch")
    return ci


def unwrap(v, plan, upto):
    """walks the nested result along plan[0..upto) and returns the value produced by frame 'upto' (the innermost catch)"""
    cur = v
    for i in range(upto):
        k = plan[i]
        if not (isinstance(cur, tuple) and cur[0] == "a"):
            return ("shape", i, cur)
        items = cur[1]
        if k == "catch":
            if len(items) != 3 or items[0] != "caught" or items[1] != 0:
                return ("outer-catch-not-clean", i, cur)
            cur = items[2]
        elif k in ("call", "inh", "call_other", "peer", "fp", "expr_fp", "bound_fp"):
            cur = items[1]
        elif k == "agg":
            cur = items[0]
        elif k == "map":
            cur = items[1][1][0]
        elif k == "foreach":
            cur = items[1][1][0]
        else:
            return ("opaque", i, None)     # frames that do not pass the inner value up (filter, sort, hooks ...)
    return ("ok", upto, cur)


def evaluate_one(ctx, w, plan, site, k, probe_ref):
    """one evaluation; k = None or ('err'|'cost', index)"""
    steps = [["load", "t/c05.c"], ["regs"], ["monitor", "reset"]]
    lpc_site = site if site in SITES else "none"
    if k is not None and k[0] == "err":
        steps.append(["inject", str(k[1])])
    elif k is not None and k[0] == "cost":
        steps.append(["evalcost", str(k[1])])
    steps.append(["call", "t/c05", "run", arg(",".join(plan)), arg(lpc_site)])
    ci = len(steps) - 1
    steps += [["monitor", "report"], ["monitor", "reset"], ["regs"], ["call", "t/c05", "state"], ["call", "t/c05", "probe"], ["regs"]]
    if site == "deepmiss":
        steps.append(["call", "t/c05", "fill"])      # every slot of the apply cache is looked at again
    res = w.run(steps)
    return res, ci


def evaluate_case(ctx, w, case, probe_ref, only_k=None):
    plan, site = case["plan"], case["site"]
    info = "plan %r site %s" % (plan, site)
    feats = set()
    ks = [None]
    # fault-free run of the same frame stack first: its instruction count bounds the injection index, and its final registers
    # are what an evaluation that catches its error must end with (an evaluation that completes may legitimately move the
    # command giver and - a clone made inside create() during a load - the load-depth counter)
    res, ci = evaluate_one(ctx, w, plan, "none", None, probe_ref)
    if res.timed_out or res.crash():
        ctx.inconclusive["fault-free-run-failed"] += 1
        return None, None
    ff_regs = res.step(ci + 3, "regs")
    if site in ("inject", "inject_cost"):
        mon = res.step(ci + 1, "monitor") or {}
        n = mon.get("count", 0)
        if n <= 0:
            return ("no-instruction-count", info), None
        all_k = list(range(1, n + 1))
        if ctx.tier == "quick" and n > 150:
            stride = max(1, n // 40)
            all_k = all_k[case["kseed"] % stride::stride]
        ks = [("err" if site == "inject" else "cost", kk) for kk in all_k]
        if only_k is not None:
            ks = [only_k]
    nk = 0
    for k in ks:
        nk += 1
        res, ci = evaluate_one(ctx, w, plan, site, k, probe_ref)
        where = "%s k=%r" % (info, k)
        if res.timed_out:
            ctx.inconclusive["timeout"] += 1
            continue
        cr = res.crash()
        if cr:
            return ("crash:" + cr[1][:70], where + "\n" + cr[2][:2500]), None
        before, after, after2 = res.step(1, "regs"), res.step(ci + 3, "regs"), res.step(ci + 6, "regs")
        r = res.step(ci) or {}
        # (1) registers
        if not before or not after or not after2 or not ff_regs:
            return ("no-register-snapshot", where), None
        if r.get("st") == "err":
            ref, refname = before, "driver entry"            # the error reached the driver: everything as at entry
            keys_ = REGKEYS
        else:
            ref, refname = ff_regs, "fault-free run"         # caught: ends like the evaluation without the fault
            keys_ = [key for key in REGKEYS if key != "cg"]  # (this_player() is compared at the catch point by the LPC program)
        for tag, reg, rf in (("after-call", after, ref), ("after-probe", after2, after)):
            diff = {key: (rf.get(key), reg.get(key)) for key in keys_ if rf.get(key) != reg.get(key)}
            if "nott" in diff and reg.get("nott") == before.get("nott"):
                # clone_object() zeroes the load-depth counter, so a fault-free run that clones inside a create() under load ends
                # at -1; the catching run restores the value of the catch point instead. Either is accepted, a leaked level is not.
                del diff["nott"]
            if diff:
                return ("registers-not-restored:%s:%s" % (tag, ",".join(sorted(diff))),
                        "registers differ from %s: %r\noutcome %r\n%s" % (refname if tag == "after-call" else "before the probe", diff, str(r)[:300], where)), None
        # (3) probe behaves as in a fresh driver
        pr = res.step(ci + 5) or {}
        if pr.get("st") != "val" or (probe_ref is not None and unjson(pr["v"]) != probe_ref):
            return ("probe-differs-after-error", "probe gave %r, fresh driver gives %r\n%s" % (str(pr)[:300], probe_ref, where)), None
        stt = res.step(ci + 4) or {}
        state = unjson(stt["v"])[1] if stt.get("st") == "val" else None
        if state is not None and state[2] != 0:
            return ("command-giver-not-restored-at-catch", "this_player() / previous_object() / own globals / local and inherited calls after catch differ from before it (code %r: 1 = command giver, 100 = caller, 10000 = variable or function index offsets)\n%s" % (state[2], where)), None
        catchable = not (site in UNCATCHABLE or (k is not None and k[0] == "cost"))
        has_catch = "catch" in plan
        if k is None and site in SITES:
            # the error fires at the bottom, after every frame was entered
            if state is None or state[0] != len(plan) + 1:
                if site != "deep":
                    return ("side-effects-wrong", "progress counter %r, expected %d\n%s" % (state and state[0], len(plan) + 1, where)), None
            if has_catch and catchable:
                if r.get("st") != "val":
                    return ("catch-did-not-catch", "a catch frame encloses the %s site but the driver got %r\n%s" % (site, str(r)[:300], where)), None
                ci_ = max(i for i, kk in enumerate(plan) if kk == "catch")
                u = unwrap(unjson(r["v"]), plan, ci_)
                if u[0] == "ok":
                    cv = u[2]
                    if not (isinstance(cv, tuple) and cv[0] == "a" and len(cv[1]) == 3 and cv[1][0] == "caught"):
                        return ("catch-result-shape", "innermost catch returned %r\n%s" % (cv, where)), None
                    e = cv[1][1]
                    if site == "throw":
                        if e != ("a", [1, "thrown"]):
                            return ("catch-yields-wrong-value", "catch yielded %r for throw(({1,\"thrown\"}))\n%s" % (e, where)), None
                    elif not (isinstance(e, str) and EXPECT.get(site, "") in e):
                        return ("catch-yields-wrong-message", "catch yielded %r for site %s\n%s" % (e, site, where)), None
                    if cv[1][2] != 0:
                        return ("catch-assigned-despite-error", "the variable assigned inside catch() reads %r\n%s" % (cv[1][2], where)), None
                elif u[0] in ("shape", "outer-catch-not-clean"):
                    return ("result-shape-after-catch:" + u[0], "frame %d gave %r\nfull %r\n%s" % (u[1], u[2], str(r)[:400], where)), None
                feats.add("caught")
            else:
                if r.get("st") != "err":
                    return ("error-did-not-reach-driver", "site %s (%scatchable, %s catch frame) but the driver got %r\n%s" % (
                        site, "" if catchable else "un", "with" if has_catch else "no", str(r)[:300], where)), None
                feats.add("reached-driver")
        else:
            # injected fault: the outcome depends on k; uncatchable ones must reach the driver
            if not catchable and r.get("st") != "err":
                return ("uncatchable-error-swallowed", "eval_cost exhausted at instruction %r but the driver got %r\n%s" % (k, str(r)[:300], where)), None
            feats.add("injected")
        ctx.evaluations += 1
        nontriv = len(plan) >= 2 and any(x != "call" for x in plan)
        if nontriv:
            ctx.nontrivial.add(runner.khash([plan, site, k]))
    return None, feats


_workers = {}
_probe = {}


def get_worker(ctx, master="std"):
    key = (ctx.rundir, master)
    w = _workers.get(key)
    if w is None:
        files = dict(FILES)
        if master == "catching":
            import os
            from ..worker import BASE_MUDLIB
            files["master.c"] = open(os.path.join(BASE_MUDLIB, "master.c")).read().replace(
                "mixed error_handler(mapping m, int caught) {", "mixed error_handler(mapping m, int caught) {\n  mixed lerr;\n  catch(lerr = \"\" + m[\"error\"]);")
        w = Worker(ctx.scratch("w" + master), timeout=20, mudlib_files=files, conf={"MaxEvaluationCost": "300000"})
        _workers[key] = w
        r = w.run([["load", "t/c05.c"], ["call", "t/c05", "probe"]])
        pr = r.step(1)
        _probe[key] = unjson(pr["v"]) if pr and pr.get("st") == "val" else None
    return w


def close_workers(ctx):
    for key in [k for k in _workers if k[0] == ctx.rundir]:
        _workers.pop(key).close()


def check(ctx, case):
    w = get_worker(ctx, case.get("master", "std"))
    f, feats = evaluate_case(ctx, w, case, _probe.get((ctx.rundir, case.get("master", "std"))))
    if f:
        ctx.fail(f[0], case, f[1])
        return
    if feats is None:
        return
    for x in ["site:" + case["site"], "master:" + case.get("master", "std")] + ["frame:" + k for k in set(case["plan"])] + sorted(feats):
        ctx.classes[x] += 1
    if len(ctx.samples) < 4:
        ctx.samples.append(dict(plan=case["plan"], site=case["site"]))


def shard_main(ctx):
    from hypothesis import given
    n = {"quick": 250, "thorough": 1200}[ctx.tier]

    @given(cases())
    def test(case):
        check(ctx, case)

    try:
        runner.run_hypothesis(ctx, test, n)
    finally:
        close_workers(ctx)


def replay(ctx, case):
    try:
        w = get_worker(ctx, case.get("master", "std"))
        f, _ = evaluate_case(ctx, w, case, _probe.get((ctx.rundir, case.get("master", "std"))))
        return f
    finally:
        close_workers(ctx)
