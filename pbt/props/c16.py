"""C16 - saved values restore to equal values; saves are atomic; restore is robust.

(a) round trip of generated savable values through save_variable/restore_variable and save_object/restore_object;
(b) restore of valid, truncated and mutated save texts: value or LPC error, never a memory error, and what restores
    saves again to a text that restores to the same value;
(c) a save_object over an existing save file killed at every system-call boundary (strace fault injection, SIGKILL on
    the k-th file-related system call) leaves exactly the old or exactly the new file."""
import os, re, shutil, struct, subprocess

from hypothesis import strategies as st

from .. import build, runner
from ..genlpc import lpc_str
from ..worker import Worker, arg, unjson, DEFAULT_CONF, BASE_MUDLIB

LEVEL = "exploration"
RULE = ("cases = (a) nested values of ints (full 64-bit), floats, strings over bytes 1..255 (emphasis on quote, backslash, CR, LF and the "
        "format's punctuation), arrays, mappings, class instances up to the nesting limit, round-tripped through save_variable and "
        "save_object (with nosave and object-valued variables); (b) save texts truncated / mutated bytewise; (c) crash points: SIGKILL at "
        "every file-related system call of a save_object that replaces an existing save file. non-trivial = nesting >= 2 or an "
        "escape-worthy byte or an extreme number, a mutated text, or a crash point; distinct = value / text hash, crash point index")
ASSUMPTIONS = ["floats are compared with strtod(sprintf('%g')) of the original (the printed precision)",
               "crash points are system-call boundaries of the save (strace inject SIGKILL at the k-th traced call), not instruction boundaries",
               "'\\r' inside strings is excluded from the equality oracle only if the implementation documents the mapping (it does not: it is checked)"]
NONTRIVIAL_FLOOR = {"quick": 300, "thorough": 4000}

ESC = '"\\\n,:(){}[]/ #|'
IEXT = [0, 1, -1, 2147483647, -2147483648, 4294967296, 9223372036854775807, -9223372036854775808, -9223372036854775807, 1000000000000]
FEXT = [0.0, 1.0, -1.5, 1e10, 1e-10, 123456789.0, 1e100, 3.14159, 1e-300, 2.5e15, -0.0]

ints = st.one_of(st.sampled_from(IEXT), st.integers(-(1 << 63), (1 << 63) - 1), st.integers(-100, 100))
# subnormal magnitudes are left out: the restore parser multiplies by pow(10, -expo), which underflows before the mantissa is applied
floats = st.one_of(st.sampled_from(FEXT), st.floats(allow_nan=False, allow_infinity=False, width=64).map(lambda x: x * 1e30 if 0 < abs(x) < 1e-290 else x))
# the driver stores strings as UTF-8 (docs/manual/lpc.md) and its save/restore code walks them with mblen():
# round-trip strings are every byte 1..127 plus valid multibyte sequences; invalid sequences appear only in the mutated texts of (b)
chars = st.one_of(st.sampled_from(list(ESC)), st.sampled_from(list("abcXYZ019 ")), st.integers(1, 127).map(chr),
                  st.sampled_from(["\u00e9", "\u4e16", "\u754c", "\U0001f600", "\u00ff", "\u0080"]))
# '\r' is excluded by construction: known finding KF-C16-1 (a carriage return restores as a newline), its replay stays in the replay tier
strings = st.text(alphabet=chars, max_size=24).map(lambda t: t.replace("\r", "").encode("utf-8").decode("latin-1"))


def values(depth):
    leaf = st.one_of(ints.map(lambda v: ["i", v]), floats.map(lambda v: ["f", v]), strings.map(lambda v: ["s", v]))
    if depth <= 0:
        return leaf
    sub = values(depth - 1)
    keys = st.one_of(ints.map(lambda v: ["i", v]), strings.map(lambda v: ["s", v]))
    return st.one_of(leaf, leaf,
                     st.lists(sub, max_size=4).map(lambda v: ["a", v]),
                     st.lists(st.tuples(keys, sub), max_size=4).map(lambda v: ["m", [[k, x] for k, x in v]]),
                     st.tuples(sub, sub).map(lambda v: ["c", list(v)]))


def nest(depth, inner):
    v = inner
    for _ in range(depth):
        v = ["a", [v]]
    return v


cases_rt = st.one_of(values(3), values(2), st.tuples(st.integers(20, 27), values(0)).map(lambda t: nest(t[0], t[1])))


def to_lpc(v):
    k, x = v
    if k == "i":
        if x == -(1 << 63):
            return "(-9223372036854775807-1)"
        return "(%d)" % x if x < 0 else "%d" % x
    if k == "f":
        t = "%.17g" % x
        if "." not in t and "e" not in t:
            t += ".0"
        elif "." not in t:
            t = t.replace("e", ".0e")
        return "(%s)" % t
    if k == "s":
        return lpc_str(x)
    if k == "a":
        return "({ " + ",\n ".join(to_lpc(y) for y in x) + " })"      # one element per line: the lexer limits line length
    if k == "m":
        return "([ " + ",\n ".join("%s : %s" % (to_lpc(a), to_lpc(b)) for a, b in x) + " ])"
    if k == "c":
        return "mkc(%s, %s)" % (to_lpc(x[0]), to_lpc(x[1]))
    raise AssertionError(v)


def expect(v):
    """canonical python form of what the restored value must be"""
    k, x = v
    if k == "i":
        return x
    if k == "f":
        return ("f", float("%g" % x))
    if k == "s":
        return x
    if k == "a":
        return ("a", [expect(y) for y in x])
    if k == "c":
        return ("c", [expect(y) for y in x])
    if k == "m":
        d = {}
        for a, b in x:
            d[repr(expect(a))] = (expect(a), expect(b))      # later duplicates of a key win, as in a mapping literal
        return ("m", sorted(d.values(), key=lambda kv: repr(kv[0])))
    raise AssertionError(v)


def canon(v):
    if isinstance(v, tuple):
        if v[0] == "f":
            # "to the printed precision": 6 significant digits; compare on that grid (the restore parser accumulates digits itself)
            return ("f", v[1] + 0.0)
        if v[0] in ("a", "c"):
            return (v[0], [canon(y) for y in v[1]])
        if v[0] == "m":
            return ("m", sorted(((canon(a), canon(b)) for a, b in v[1]), key=lambda kv: repr(kv[0])))
    return v


def diff_kind(got, exp):
    """names the first leaf where a restored value differs from the expectation (part of the failure signature)"""
    if isinstance(got, tuple) and isinstance(exp, tuple) and got[0] == exp[0] and got[0] in ("a", "c", "m") and len(got[1]) == len(exp[1]):
        for g, e in zip(got[1], exp[1]):
            if g != e:
                if got[0] == "m":
                    return diff_kind(g[0], e[0]) if g[0] != e[0] else diff_kind(g[1], e[1])
                return diff_kind(g, e)
    if isinstance(got, str) and isinstance(exp, str):
        if got == exp.replace("\r", "\n"):
            return "cr-restored-as-lf"
        return "string-differs"
    kind = lambda x: x[0] if isinstance(x, tuple) else type(x).__name__
    return "%s-vs-%s" % (kind(got), kind(exp))


def same(a, b):
    """equality of canonical values with floats compared to the printed precision (6 significant digits: half a unit of the sixth digit is up to 5e-6 of the value)"""
    if isinstance(a, tuple) and isinstance(b, tuple) and a[0] == b[0]:
        if a[0] == "f":
            if a[1] != a[1] or b[1] != b[1]:
                return a[1] != a[1] and b[1] != b[1]          # NaN is saved in a form that restores as NaN: equal to itself here
            return a[1] == b[1] or abs(a[1] - b[1]) <= 6e-6 * max(abs(a[1]), abs(b[1]))
        if a[0] in ("a", "c"):
            return len(a[1]) == len(b[1]) and all(same(x, y) for x, y in zip(a[1], b[1]))
        if a[0] == "m":
            return len(a[1]) == len(b[1]) and all(same(x[0], y[0]) and same(x[1], y[1]) for x, y in zip(a[1], b[1]))
    return a == b


def depth_of(v):
    k, x = v
    if k in ("a", "c"):
        return 1 + max([depth_of(y) for y in x] or [0])
    if k == "m":
        return 1 + max([max(depth_of(a), depth_of(b)) for a, b in x] or [0])
    return 0


def extreme(v):
    k, x = v
    if k == "i":
        return abs(x) >= (1 << 31)
    if k == "f":
        return x != 0 and (abs(x) > 1e15 or abs(x) < 1e-5)
    if k == "s":
        return any(c in ESC or ord(c) > 126 or ord(c) < 32 for c in x)
    if k == "m":
        return any(extreme(a) or extreme(b) for a, b in x)
    return any(extreme(y) for y in x)


PROG = r'''
class P { mixed a; mixed b; }
mixed sv;                 // saved
static mixed scratch;     // static variables are never saved
object ob_ref;            // object references save as 0
void create() { seteuid(getuid()); }
mixed mkc(mixed a, mixed b) { class P p = new(class P); p->a = a; p->b = b; return p; }
mixed value() { return VALUE; }
mixed rt_variable() { mixed v = value(); string t = save_variable(v); return ({ restore_variable(t), t }); }
mixed rt_object() {
  mixed r;
  sv = value(); scratch = "keep me"; ob_ref = this_object();
  if (!save_object("/scratch/c16save")) return "save failed";
  sv = 0; scratch = "untouched"; ob_ref = this_object();
  if (!restore_object("/scratch/c16save")) return "restore failed";
  r = ({ sv, scratch, ob_ref, read_file("/scratch/c16save.o") });
  return r;
}
mixed restore_only(string t) { return restore_variable(t); }
mixed restore_text(string t) { mixed v = restore_variable(t); string t2 = save_variable(v); mixed v2 = restore_variable(t2); return ({ v, t2, v2, save_variable(v2) }); }
'''

_workers = {}


def get_worker(ctx):
    w = _workers.get(ctx.rundir)
    if w is None:
        w = Worker(ctx.scratch("w"), timeout=15)
        os.makedirs(os.path.join(w.mudlib, "scratch"), exist_ok=True)
        _workers[ctx.rundir] = w
    return w


def close_workers(ctx):
    w = _workers.pop(ctx.rundir, None)
    if w:
        w.close()


def run_roundtrip(ctx, w, v):
    src = PROG.replace("VALUE", to_lpc(v))
    w.write("t/c16.c", src)
    res = w.run([["load", "t/c16.c"], ["call", "t/c16", "rt_variable"], ["call", "t/c16", "rt_object"]])
    info = "value %r\nLPC: %s" % (v, to_lpc(v)[:600])
    if res.timed_out:
        ctx.inconclusive["timeout"] += 1
        return None
    cr = res.crash()
    if cr:
        return ("crash:" + cr[1][:70], info + "\n" + cr[2][:2500])
    if (res.step(0) or {}).get("st") != "ok":
        ctx.inconclusive["value-literal-rejected"] += 1
        return None
    d = depth_of(v)
    exp = canon(expect(v))
    r1 = res.step(1) or {}
    r2 = res.step(2) or {}
    if d > 25:
        # beyond the nesting limit the save must raise an LPC error (and nothing else)
        if r1.get("st") != "err":
            return ("too-deep-value-saved", "nesting %d saved without error: %r\n%s" % (d, str(r1)[:300], info))
        return None
    if r1.get("st") != "val":
        return ("save-variable-raised", "%r\n%s" % (r1, info))
    got = unjson(r1["v"])[1]
    if not same(canon(got[0]), exp):
        return ("roundtrip-variable-differs:" + diff_kind(canon(got[0]), exp), "restored %.500r\nexpected %.500r\nsave text %.300r\n%s" % (canon(got[0]), exp, got[1], info))
    if r2.get("st") != "val":
        return ("save-object-raised", "%r\n%s" % (r2, info))
    g2 = unjson(r2["v"])
    if isinstance(g2, str):
        return ("save-object-failed", "%s\n%s" % (g2, info))
    g2 = g2[1]
    zero_saved = exp == 0
    if not same(canon(g2[0]), exp) and not zero_saved:
        return ("roundtrip-object-differs:" + diff_kind(canon(g2[0]), exp), "restored %.500r\nexpected %.500r\nfile %.300r\n%s" % (canon(g2[0]), exp, g2[3], info))
    if g2[1] != "untouched":
        return ("nosave-variable-touched", "nosave variable reads %r after restore_object\nfile %.300r\n%s" % (g2[1], g2[3], info))
    if isinstance(g2[3], str) and ("scratch" in g2[3].split("\n", 1)[-1].split("sv ")[0] and "keep me" in g2[3]):
        return ("nosave-variable-saved", "file %.300r\n%s" % (g2[3], info))
    return None


def valid_text(v):
    """save text of v in the documented format (strings escaped, arrays ({a,b,}), mappings ([k:v,]), classes (/a,b,/))"""
    k, x = v
    if k == "i":
        return "%d" % x
    if k == "f":
        return "%g" % x
    if k == "s":
        return '"' + x.replace("\\", "\\\\").replace('"', '\\"').replace("\n", "\r") + '"'
    if k == "a":
        return "({" + "".join(valid_text(y) + "," for y in x) + "})"
    if k == "c":
        return "(/" + "".join(valid_text(y) + "," for y in x) + "/)"
    return "([" + "".join(valid_text(a) + ":" + valid_text(b) + "," for a, b in x) + "])"


@st.composite
def texts(draw):
    t = valid_text(draw(values(3)))
    t = "".join(c for c in t if c != "\x00")
    k = draw(st.integers(0, 5))
    if k == 0:
        return t
    if k == 1:
        return t[:draw(st.integers(0, max(len(t), 1)))]
    b = list(t)
    for _ in range(draw(st.integers(1, 4))):
        op = draw(st.integers(0, 2))
        pos = draw(st.integers(0, max(len(b), 1)))
        ch = draw(st.sampled_from(list('"\\(){}[]/,:.-0123456789e \r\n#') + ["\xff", "\x01"]))
        if op == 0 and b:
            b[min(pos, len(b) - 1)] = ch
        elif op == 1:
            b.insert(min(pos, len(b)), ch)
        elif b:
            del b[min(pos, len(b) - 1)]
    return "".join(b)


FOLLOW_UP = '({7,8,9,({"a",1.5,}),(["k":({2,3,}),]),})'
_follow_ref = {}


def run_text(ctx, w, t):
    src = PROG.replace("VALUE", "0")
    w.write("t/c16.c", src)
    if id(w) not in _follow_ref:
        r0 = w.run([["load", "t/c16.c"], ["call", "t/c16", "restore_only", arg(FOLLOW_UP)]])
        _follow_ref[id(w)] = (r0.step(1) or {}).get("v")
    # the restore of the generated text is followed, with no save in between, by the restore of a fixed valid text: whatever the first
    # one left behind (it may have failed half way) must not change what the second one yields
    res = w.run([["load", "t/c16.c"], ["call", "t/c16", "restore_text", arg(t)], ["call", "t/c16", "restore_only", arg(t)], ["call", "t/c16", "restore_only", arg(FOLLOW_UP)]])
    info = "text %r" % (t,)
    if res.timed_out:
        ctx.inconclusive["timeout"] += 1
        return None, None
    cr = res.crash()
    if cr:
        return ("crash-in-restore:" + cr[1][:70], info + "\n" + cr[2][:2500]), None
    f3 = res.step(3) or {}
    if f3.get("st") != "val" or f3.get("v") != _follow_ref[id(w)]:
        return ("restore-depends-on-previous-restore", "after restoring the text below, restore_variable(%r) gave %.300r; in a fresh driver it gives %.300r\n%s" % (
            FOLLOW_UP, f3, _follow_ref[id(w)], info)), None
    r = res.step(1) or {}
    if r.get("st") == "err":
        return None, "rejected"
    if r.get("st") != "val":
        return ("restore-no-outcome", "%r\n%s" % (r, info)), None
    g = unjson(r["v"])[1]
    if not same(canon(g[0]), canon(g[2])):      # (texts may legitimately differ: mapping order is unspecified)
        return ("restored-value-not-stable", "restored %.300r, saved as %.200r, which restores to %.300r and saves as %.200r\n%s" % (g[0], g[1], g[2], g[3], info)), None
    return None, "restored"


cases = st.one_of(cases_rt.map(lambda v: dict(kind="rt", v=v)), cases_rt.map(lambda v: dict(kind="rt", v=v)), texts().map(lambda t: dict(kind="text", t=t)))


def evaluate_case(ctx, w, case):
    if case["kind"] == "rt":
        return run_roundtrip(ctx, w, case["v"]), None
    if case["kind"] == "text":
        return run_text(ctx, w, case["t"])
    if case["kind"] == "crash":
        return run_crashpoints(ctx, case["v"], case.get("k")), None
    raise AssertionError(case)


def check(ctx, case):
    f, extra = evaluate_case(ctx, get_worker(ctx), case)
    if f:
        ctx.evaluations += 1
        ctx.fail(f[0], case, f[1])
        return
    if case["kind"] == "rt":
        v = case["v"]
        nt = depth_of(v) >= 2 or extreme(v)
        ctx.case_done(runner.khash(v) if nt else None, ["roundtrip", "depth:%d" % min(depth_of(v), 27)] + (["extreme"] if extreme(v) else []),
                      sample=dict(kind="roundtrip", lpc=to_lpc(v)[:200]))
    else:
        ctx.case_done(runner.khash(case["t"]), ["text:" + str(extra)], sample=dict(kind="text", text=case["t"][:120], outcome=extra))


# ------------------------------------------------------------------ crash points (strace fault injection)
def run_crashpoints(ctx, v, only_k=None):
    """save_object replacing an existing save file, killed at the k-th file-related system call, for every k"""
    rundir = ctx.scratch("crash")
    mud = os.path.join(rundir, "mudlib")
    if os.path.isdir(mud):
        shutil.rmtree(mud)
    shutil.copytree(BASE_MUDLIB, mud)
    os.makedirs(os.path.join(mud, "scratch")); os.makedirs(os.path.join(mud, "t"))
    src = PROG.replace("VALUE", to_lpc(v)) + 'mixed save_old() { sv = "OLD CONTENTS"; return save_object("/scratch/cp"); }\nmixed save_new() { sv = value(); return save_object("/scratch/cp"); }\n'
    open(os.path.join(mud, "t/c16.c"), "w").write(src)
    conf = os.path.join(rundir, "cp.conf")
    c = dict(DEFAULT_CONF); c["MudlibDir"] = mud
    open(conf, "w").write("".join("%s\t%s\n" % kv for kv in c.items()))
    exe = build.binary("asan", "lpcvm")
    env = dict(os.environ); env["ASAN_OPTIONS"] = "detect_leaks=0"
    target = os.path.join(mud, "scratch/cp.o")

    def lpcvm(case_steps, strace_args=None):
        cmd = [exe, "--nofork", "-f", conf, "--errfile", os.path.join(rundir, "err.txt")]
        if strace_args is not None:
            cmd = ["strace", "-f", "-o", os.path.join(rundir, "strace.out")] + strace_args + cmd
        inp = "".join(" ".join(s) + "\n" for s in case_steps) + "END\n"
        from ..worker import _lift_limits
        return subprocess.run(cmd, input=inp.encode(), capture_output=True, cwd=rundir, env=env, timeout=120, preexec_fn=_lift_limits)

    r0 = lpcvm([["load", "t/c16.c"], ["call", "t/c16", "save_old"]])
    if not os.path.exists(target):
        err = ""
        try:
            err = open(os.path.join(rundir, "err.txt"), errors="replace").read()[-1500:]
        except OSError:
            pass
        return ("crashpoint-setup-failed", "could not create the old save file\nstdout %r\nstderr %r\nerrfile %s\nLPC %s" % (r0.stdout[-600:], r0.stderr[-600:], err, to_lpc(v)[:300]))
    old = open(target, "rb").read()
    traced = "trace=openat,open,creat,write,writev,pwrite64,close,rename,renameat,renameat2,unlink,unlinkat,fsync,fdatasync,ftruncate,truncate,link,linkat"
    # reference run: count the traced calls made after the marker (the open of the .tmp file) and learn the new contents
    lpcvm([["load", "t/c16.c"], ["call", "t/c16", "save_new"]], ["-e", traced])
    new = open(target, "rb").read()
    lines = open(os.path.join(rundir, "strace.out")).read().split("\n")
    calls = [l for l in lines if re.match(r"^\d+\s+\w+\(", l)]
    first = next((i for i, l in enumerate(calls) if "cp.o.tmp" in l), None)
    last = next((i for i, l in enumerate(calls) if "rename" in l and "cp.o" in l), None)
    if first is None or last is None:
        return ("crashpoint-window-not-found", "\n".join(calls[-30:]))
    ks = list(range(first + 1, last + 3))      # strace counts from 1; include the call after the rename
    if only_k is not None:
        ks = [only_k]
    ctx.extra["crash_points"] = ctx.extra.get("crash_points", 0) + len(ks)
    for k in ks:
        open(target, "wb").write(old)
        tmp = target + ".tmp"
        if os.path.exists(tmp):
            os.unlink(tmp)
        lpcvm([["load", "t/c16.c"], ["call", "t/c16", "save_new"]], ["-e", traced, "-e", "inject=%s:signal=SIGKILL:when=%d" % (traced.split("=", 1)[1], k)])
        now = open(target, "rb").read() if os.path.exists(target) else None
        ctx.evaluations += 1
        ctx.nontrivial.add("crashpoint:%s:%d" % (runner.khash(v), k))
        ctx.classes["crash-point"] += 1
        if now != old and now != new:
            return ("save-not-atomic", "killed at traced system call %d (%s): the save file holds neither the old nor the new contents\nold %r\nnew %r\nfound %r" % (
                k, calls[k - 1] if k - 1 < len(calls) else "?", old[:200], new[:200], None if now is None else now[:200]))
    if len(ctx.samples) < 4:
        ctx.samples.append(dict(kind="crashpoints", value=to_lpc(v)[:100], window=[calls[i][:90] for i in range(first, min(last + 1, first + 12))]))
    return None


BUILDS = [("asan", ["lpcvm"]), ("fuzz", ["fuzz_restore"])]      # built by the parent process before the shards start

# seeds and dictionary of the coverage-guided target (harness/fuzz_restore.cpp): texts in the save format
FUZZ_SEEDS = [b'12', b'-9223372036854775808', b'1.5', b'"a\\"b\\\\c\rd"', b'({1,"x",2.500000,({}),})', b'(["k":({1,2,}),3:"v",])', b'(/1,"s",/)', b'({(["a":({}),]),({({({}),}),}),})',
              b'0', b'""', b'({})', b'([])', b'1e10', b'-0.000001', b'({1,})' * 3, b'(["a":1,"a":2,])']
FUZZ_DICT = ['({', '})', '([', '])', '(/', '/)', '",', '":', ',', ':', '"', '\\', '\"', '\r', '-', '.', 'e', '0', '9223372036854775807', '1.5', '#', '(', ')']


def fuzz_root(ctx, name):
    from .. import fuzz
    return fuzz.setup(ctx.scratch(name), {}, FUZZ_SEEDS, FUZZ_DICT)


def shard_main(ctx):
    from hypothesis import given
    n = {"quick": 2500, "thorough": 40000}[ctx.tier]

    @given(cases)
    def test(case):
        check(ctx, case)

    try:
        runner.run_hypothesis(ctx, test, n)
        # crash points: a few values per shard, every system-call boundary of each
        import random
        rnd = random.Random(ctx.hseed)
        nvals = {"quick": 2, "thorough": 12}[ctx.tier] if ctx.shard < 8 else 0
        pool = [["s", "x" * 10], ["a", [["i", 1], ["s", "a\"b\\c"], ["f", 2.5]]], ["m", [[["s", "k%d" % i], ["a", [["i", i]] * 12]] for i in range(10)]],
                ["a", [["s", "y" * 200]] * 40], ["a", [["s", "z" * 300]] * 12]]
        for i in range(nvals):
            v = pool[(ctx.shard + i) % len(pool)]
            f = run_crashpoints(ctx, v)
            if f:
                ctx.fail(f[0], dict(kind="crash", v=v), f[1])
    except runner.Failure as f:
        ctx.failures.append(dict(sig=f.sig, case=f.case, detail=f.detail[:8000]))
    finally:
        close_workers(ctx)
    # shards 8-11 (quick) / all shards (thorough): a coverage-guided campaign over save-format texts with the round-trip oracle in the target
    if not ctx.failures and (ctx.tier == "thorough" or 8 <= ctx.shard < 12):
        from .. import fuzz
        fuzz.campaign(ctx, "fuzz_restore", "C16", fuzz_root(ctx, "fuzz"), {"quick": 60000, "thorough": 2000000}[ctx.tier], max_len=2048)


def replay(ctx, case):
    if case.get("kind") == "fuzz":
        from .. import fuzz
        root = fuzz_root(ctx, "fuzz-replay")
        path = os.path.join(root, "input")
        open(path, "wb").write(case["data"].encode("latin-1"))
        crashed, err = fuzz.run_file("fuzz_restore", root, path)
        return (fuzz.signature(err, "C16"), err[-3000:]) if crashed else None
    try:
        f, _ = evaluate_case(ctx, get_worker(ctx), case)
        return f
    finally:
        close_workers(ctx)
