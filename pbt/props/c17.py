"""C17 - a program loaded from a saved binary equals what its source compiles to, and stale binaries are not used.

A child program (generated C03 program + string switches + class + function literal + a failing function on a known
line; '#pragma save_binary', an #include and an inherit) and its parent are taken through histories of run / edit
source / edit include / edit parent / touch / touch simul_efun steps with distinct logical modification times. Every
'run' is a fresh driver process over the same mudlib directory (so binaries written earlier are found); a second
driver configured without SaveBinaryDir compiles the same sources and is the reference. Oracle: address-free
program summaries of child and parent, the results of every call and the reported error location are equal; and a
binary is never opened-and-used (libc file-call log) when the model knows a dependency to be newer."""
import os
import time

from hypothesis import strategies as st

from .. import runner
from ..worker import Worker, arg, unjson

LEVEL = "exploration"
RULE = ("cases = (generated child program, history of 3-14 steps over {run, edit source, edit include, edit parent, touch source / include / parent / the parent's own include, edit the parent's own include (which changes the parent's variable layout), "
        "touch simul_efun file (driver restart)}); logical modification times are set explicitly and strictly increase; after a run the binaries it "
        "wrote get that run's logical time. non-trivial = at least one run loaded the child from its binary and at least one run had to recompile because "
        "of an edit or touch; distinct = (program, history) hash")
ASSUMPTIONS = ["whether a binary was used is read from the interposed libc file-call log of the load: the .b file was opened and the .c file was not",
               "the driver-format stamp (driver_id) cannot be varied from outside and is not exercised",
               "summaries are address-free (sorted tables), as in C02"]
NONTRIVIAL_FLOOR = {"quick": 100, "thorough": 2000}

PARENT = '''#pragma save_binary
#include "c17p.h"
#if PK %% 2
int extra_pg = PK;          // the parent's variable layout depends on its own header
#endif
int pg = %(pv)d;
int parent_fn(int a) { return a * 3 + %(pv)d; }
string parent_name() { return "parent%(pv)d"; }
int parent_k() { return PK; }
// virtual calls by index: the child overrides some of these, and the parent's own code must reach the overriding bodies
int va() { return 1; }
int vb() { return 2; }
int vc() { return 3; }
int vd() { return 4; }
int ve() { return 5; }
int vsum() { return va() * 10000 + vb() * 1000 + vc() * 100 + vd() * 10 + ve(); }
string psw(string v) { switch (v) { case "x": return "px"; case "parent%(pv)d": return "self"; case "y": return "py"; } return "pdefault"; }
'''
PHEADER = '#define PK %(pk)d\n'
HEADER = '#define K %(k)d\n#define KS "ks%(k)d"\n'
CHILD_HEAD = '''#pragma save_binary
%(pragma)s
#include "c17.h"
inherit "/%(td)s/c17p";
class Pt { int x; string s; }
int cv = %(cv)d;
'''
CHILD_TAIL = '''
OVERRIDES
string sw(string v) {
  switch (v) {
  case "a": return "case-a";
  case KS: return "case-ks";
  case "bb": case "a longer label %(cv)d": return "case-long";
  case 0: return "case-zero";
  }
  return "default";
}
// switch tables of every small shape: a loaded binary has to patch each string label back into a pointer
string sw1(string v) { switch (v) { case "only": return "one"; } return "none"; }
string sw1d(string v) { switch (v) { case KS: return "ks"; default: return "dflt"; } }
string sw2(string v) { switch (v) { case "only": return "one"; case "other %(cv)d": return "two"; } return "none"; }
string isw(int v) { switch (v) { case 5: return "five"; } return "n"; }
string rsw(int v) { switch (v) { case 1..3: return "r"; case 100: return "h"; default: return "d"; } }
mixed extra() {
  class Pt p = new(class Pt);
  function f = (: $1 + K :);
  function g = function(int a) { return a * %(cv)d; };
  p->x = K + cv; p->s = parent_name();
  return ({ p->x, p->s, evaluate(f, 1), evaluate(g, 3), parent_fn(2), sw("a"), sw(KS), sw("a longer label %(cv)d"), sw("zz"), sw(0), cv, pg,
            psw("x"), psw(parent_name()), psw("nope"), parent_k(), vsum(), va(), vb(), vc(), vd(), ve(), function_exists("parent_fn", this_object()), sizeof(functions(this_object())),
            sw1("only"), sw1("x"), sw1d(KS), sw1d("only"), sw2("only"), sw2("other %(cv)d"), sw2("q"), isw(5), isw(6), rsw(2), rsw(100), rsw(7), strlen(bigs()), bigs()[<3..] });
}
void fail_here() {
  int z;
  z = 1;
  error("c17 error\\n");
}
'''


@st.composite
def cases(draw):
    from . import c03
    y = draw(c03.programs())
    n = draw(st.integers(3, 14))
    ops = ["run"]
    for _ in range(n):
        ops.append(draw(st.sampled_from(["run", "run", "run", "edit_src", "edit_inc", "edit_parent", "touch_src", "touch_inc", "touch_parent", "touch_simul", "edit_pinc", "edit_pinc", "touch_pinc"])))
    ops.append("run")
    # which of the parent's five virtual functions the child overrides (gaps matter: the function table of a loaded binary is re-sorted)
    overrides = "".join(n for n in "abcde" if draw(st.booleans()))
    # now and then the child carries one string constant around the 16-bit length the binary format stores (built from adjacent literals)
    bigstr = draw(st.sampled_from([0, 0, 0, 0, 0, 60, 65, 66, 70]))
    return dict(y=y, ops=ops, save_types=draw(st.booleans()), overrides=overrides, scr=draw(st.integers(0, 10 ** 6)), bigstr=bigstr, dir=draw(st.integers(0, 6)))


class State:
    def __init__(self):
        self.t = int(time.time()) - 500000
        self.cv, self.k, self.pv, self.pk = 5, 7, 11, 2
        self.mt = {}
        self.bmt = {"c": None, "p": None}       # logical time at which the binary on disk was written
        self.bsimul = {"c": None, "p": None}

    def tick(self):
        self.t += 10
        return self.t


def sources(case, s):
    from . import c03
    files, names = c03.render_program(case["y"])
    ov = "".join("int v%s() { return %d; }\n" % (n, 6 + i) for i, n in enumerate("abcde") if n in case.get("overrides", "ac"))
    if case.get("bigstr"):
        kb = case["bigstr"]
        ov += "string bigs() { return\n" + "\n".join('"%s"' % (chr(97 + i % 26) * (1000 if i < kb - 1 else 1000 - 465)) for i in range(kb)) + ";\n}\n"
    else:
        ov += 'string bigs() { return "small"; }\n'
    child = (CHILD_HEAD % dict(pragma="#pragma save_types" if case["save_types"] else "", cv=s.cv, td=TD)) + files["r"] + (CHILD_TAIL % dict(cv=s.cv)).replace("OVERRIDES", ov)
    return {TD + "/c17c.c": child, TD + "/c17p.c": PARENT % dict(pv=s.pv), TD + "/c17.h": HEADER % dict(k=s.k), TD + "/c17p.h": PHEADER % dict(pk=s.pk)}, names


def put(workers, s, path, text=None):
    """writes (or only touches) a file in both mudlibs with the next logical time"""
    t = s.tick()
    for w in workers:
        if text is not None:
            w.write(path, text)
        os.utime(os.path.join(w.mudlib, path), (t, t))
    s.mt[path] = t


SCR_NAMES = ["va", "vb", "vc", "vd", "ve", "vsum", "parent_fn", "parent_name", "parent_k", "psw", "sw", "extra", "fail_here", "run_args", "lk",
             "v_base", "v_expanded", "v_ifchain", "v_global", "v_mixed", "h0", "h1", "create"]


def scrambler(order_seed):
    """an unrelated object that defines functions with the same names in a shuffled order and is loaded first: the shared strings of
    the names then exist at addresses in that order, so a program loaded from its binary has to re-sort its function table"""
    import random
    names = list(SCR_NAMES)
    random.Random(order_seed).shuffle(names)
    return "".join("int %s() { return %d; }\n" % (n, i) for i, n in enumerate(names) if n != "create")


def run_steps(names):
    steps = [["call", "/master", "set_policy", arg("handler"), arg("trace")], ["call", "/master", "set_policy", arg("save_binary"), arg(1)],
             ["load", "t/c17scr.c"],
             ["filelog", "on"], ["load", TD + "/c17c.c"], ["filelog", "dump"], ["filelog", "off"],
             ["call", "/master", "verif_take_compile_errors"], ["progsum", TD + "/c17c"], ["progsum", TD + "/c17p"]]
    for vn, sp, ff in names:
        if ff == "r" and sp["inputs"] == "args":
            steps.append(["call", TD + "/c17c", "run_args", arg("v_" + vn)])
    steps += [["call", TD + "/c17c", "extra"], ["call", "/master", "verif_errors"], ["call", TD + "/c17c", "fail_here"], ["call", "/master", "verif_errors"]]
    return steps


def observe(res, n):
    out = []
    for i in range(4, n):
        r = dict(res.step(i) or {})
        r.pop("i", None)
        if r.get("st") == "filelog":
            continue
        if i == 7 and r.get("st") == "val":
            # compile-time diagnostics: warnings exist only where a compilation took place; errors must agree
            r = dict(st="val", v=[x for x in unjson(r["v"])[1] if "Warning" not in x])
        out.append(r)
    return out


def binary_use(res):
    """from the libc file-call log of the load: which of the two programs came from their binaries"""
    fl = res.step(5, "filelog") or {"log": []}
    opened = [(f, p) for f, p in fl["log"] if "open" in f]
    used = {}
    for key, stem in (("c", TD + "/c17c"), ("p", TD + "/c17p")):
        b = any(p.endswith(stem + ".b") and "bin/" in p for f, p in opened)
        c = any(p.endswith(stem + ".c") for f, p in opened)
        used[key] = "binary" if (b and not c) else ("source" if c else "none")
    return used, fl["log"]


# directory of the child and its parent: program names of ordinary length, and names that make the binary's path 190-330 bytes long
DIRS = ["t", "t", "t", "t/" + "d" * 150, "t/" + "d" * 183, "t/" + "d" * 100 + "/" + "e" * 120, "t/" + "d" * 200 + "/" + "e" * 100]
TD = "t"


def evaluate_case(ctx, case):
    global TD
    TD = DIRS[case.get("dir", 0) % len(DIRS)]
    s = State()
    wdir, rdir = ctx.scratch("w"), ctx.scratch("ref")
    w = Worker(wdir, timeout=30, conf={"SaveBinaryDir": "/bin"})
    ref = Worker(rdir, timeout=30)
    feats = set()
    try:
        src, names = sources(case, s)
        for path in (TD + "/c17p.h", TD + "/c17p.c", TD + "/c17.h", TD + "/c17c.c"):
            put([w, ref], s, path, src[path])
        put([w, ref], s, "simul_efun.c")
        w.close(); ref.close()
        w = Worker(wdir, timeout=30, conf={"SaveBinaryDir": "/bin"}, keep_mudlib=True)
        ref = Worker(rdir, timeout=30, keep_mudlib=True)
        steps = run_steps(names)
        hist = []
        for op in case["ops"]:
            hist.append(op)
            info = "history %r\nsave_types=%r cv=%d k=%d pv=%d" % (hist, case["save_types"], s.cv, s.k, s.pv)
            if op == "run":
                t_run = s.tick()
                nrun = sum(1 for h in hist if h == "run")
                for ww in (w, ref):
                    ww.write("t/c17scr.c", scrambler(case.get("scr", 0) * 101 + nrun))
                before = {}
                for key, p in (("c", "bin/" + TD + "/c17c.b"), ("p", "bin/" + TD + "/c17p.b")):
                    fp = os.path.join(w.mudlib, p)
                    before[key] = os.stat(fp).st_mtime_ns if os.path.exists(fp) else None
                res = w.run(steps)
                rres = ref.run(steps)
                if res.timed_out or rres.timed_out:
                    ctx.inconclusive["timeout"] += 1
                    return None, None
                for r_, nm in ((res, "with binaries"), (rres, "reference")):
                    cr = r_.crash()
                    if cr:
                        return ("crash:" + cr[1][:70], "%s driver\n%s\n%s" % (nm, info, cr[2][:3000])), None
                used, flog = binary_use(res)
                # staleness: what the model knows to be newer than each binary
                deps = {"p": [TD + "/c17p.c", TD + "/c17p.h"], "c": [TD + "/c17c.c", TD + "/c17.h", TD + "/c17p.c"]}
                parent_stale = s.bmt["p"] is None or any(s.mt[d] > s.bmt["p"] for d in deps["p"]) or s.bsimul["p"] != s.mt["simul_efun.c"]
                for key in ("c", "p"):
                    if used[key] == "binary":
                        feats.add("loaded-from-binary:" + key)
                        if s.bmt[key] is None:
                            return ("binary-used-but-none-expected", "%s: %r\n%s" % (key, flog[:30], info)), None
                        newer = [d for d in deps[key] if s.mt[d] > s.bmt[key]]
                        if key == "c" and s.bmt["p"] is not None and s.bmt["p"] > s.bmt["c"]:
                            newer.append("binary of the inherited program")
                        if s.bsimul[key] != s.mt["simul_efun.c"]:
                            newer.append("simul_efun.c")
                        if key == "c" and parent_stale:
                            newer.append("the inherited program (recompiled in this very run)")
                        if newer:
                            return ("stale-binary-used", "the binary of %s was used although %r %s newer\n%s" % (
                                {"c": TD + "/c17c", "p": TD + "/c17p"}[key], newer, "is" if len(newer) == 1 else "are", info)), None
                    elif used[key] == "source" and s.bmt[key] is not None:
                        feats.add("recompiled:" + key)
                # equivalence with the reference compile
                a, b = observe(res, len(steps)), observe(rres, len(steps))
                labels = ["load", "filelog off", "compile errors", "summary of child", "summary of parent"] + ["results"] * (len(steps) - 14) + ["extra()", "errors so far", "fail_here()", "reported error"]
                for j, (x, y_) in enumerate(zip(a, b)):
                    if x != y_:
                        d = {k: (x.get(k), y_.get(k)) for k in set(x) | set(y_) if x.get(k) != y_.get(k)}
                        lab = labels[j] if j < len(labels) else "step %d" % j
                        return ("binary-differs-from-source:%s:%s" % (lab.split("(")[0].replace(" ", "-"), used["c"]),
                                "%s differ (with binaries [child from %s, parent from %s], reference compile): %s\n%s" % (lab, used["c"], used["p"], str(d)[:1500], info)), None
                # binaries written by this run get the run's logical time
                for key, p in (("c", "bin/" + TD + "/c17c.b"), ("p", "bin/" + TD + "/c17p.b")):
                    fp = os.path.join(w.mudlib, p)
                    if os.path.exists(fp):
                        now = os.stat(fp).st_mtime_ns
                        if before[key] is None or now != before[key]:
                            tt = s.tick() if key == "c" else t_run     # the child's binary is written after its parent's
                            os.utime(fp, (tt, tt))
                            s.bmt[key] = tt
                            s.bsimul[key] = s.mt["simul_efun.c"]
                            feats.add("binary-written")
            elif op.startswith("edit"):
                if op == "edit_src":
                    s.cv += 1
                elif op == "edit_inc":
                    s.k += 1
                elif op == "edit_pinc":
                    s.pk += 1
                else:
                    s.pv += 1
                src, names = sources(case, s)
                path = {"edit_src": TD + "/c17c.c", "edit_inc": TD + "/c17.h", "edit_parent": TD + "/c17p.c", "edit_pinc": TD + "/c17p.h"}[op]
                put([w, ref], s, path, src[path])
                feats.add(op)
            elif op == "touch_simul":
                put([w, ref], s, "simul_efun.c")
                w.close(); ref.close()
                w = Worker(wdir, timeout=30, conf={"SaveBinaryDir": "/bin"}, keep_mudlib=True)
                ref = Worker(rdir, timeout=30, keep_mudlib=True)
                feats.add(op)
            else:
                put([w, ref], s, {"touch_src": TD + "/c17c.c", "touch_inc": TD + "/c17.h", "touch_parent": TD + "/c17p.c", "touch_pinc": TD + "/c17p.h"}[op])
                feats.add(op)
        return None, feats
    finally:
        w.close()
        ref.close()


def check(ctx, case):
    f, feats = evaluate_case(ctx, case)
    if f:
        ctx.evaluations += 1
        ctx.fail(f[0], case, f[1])
        return
    if feats is None:
        ctx.case_done(None, ["not-executed"])
        return
    nontriv = "loaded-from-binary:c" in feats and ("recompiled:c" in feats or "recompiled:p" in feats)
    ctx.case_done(runner.khash(case) if nontriv else None, sorted(feats), sample=dict(ops=case["ops"], save_types=case["save_types"]))


def shard_main(ctx):
    from hypothesis import given
    n = {"quick": 60, "thorough": 1500}[ctx.tier]

    @given(cases())
    def test(case):
        check(ctx, case)

    runner.run_hypothesis(ctx, test, n)


def replay(ctx, case):
    f, _ = evaluate_case(ctx, case)
    return f
