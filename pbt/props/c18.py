"""C18 - runtime errors are reported at the right file and line with a correct trace.

The generator *places* a failing single-line statement and records (file, line, enclosing function, call
chain with call-site lines): at any line of the main file or of an include nested 0..4 deep, after blank
lines / comments / multi-line statements / continuation lines / multi-line macros / statements compiling to
more than 255 bytes of code, in an inherited program, in a function literal or functional, in a global
initialiser, beyond line 32767 and 65535, reached through chains of direct / call_other / function-pointer /
efun-callback calls. Oracle: the mapping handed to the master's error_handler (and the caught variant)."""
from hypothesis import strategies as st

from .. import runner
from ..worker import Worker, arg, unjson

LEVEL = "exploration"
RULE = ("cases = layouts: filler kinds before and between the functions (blank lines, // and /* */ comments, multi-line expressions, backslash "
        "continuations, multi-line #define, statements of > 255 bytes of code, 0 / 33000 / 66000 extra lines), a call chain of 1-6 functions with edge "
        "kinds {direct, call_other, function pointer, map callback} and the failing statement's site {main file, include depth 1-4, inherited program, "
        "function literal, functional, global initialiser}; failing forms error(), division by an opaque zero (global, local, in a return), a bad efun argument and an index out of bounds, optionally as the first statement of its function, optionally after a small header was included; uncaught and caught. "
        "non-trivial = the statement is not in the first 10 lines and at least one of {include, inherit, literal, long code, >32767 lines}; "
        "distinct = layout hash")
ASSUMPTIONS = ["expected line = the 1-based line of the statement in the file that contains its text; expected file = that file (leading '/' ignored)",
               "the trace is checked for the generator's own functions, in order, with their call-site lines; extra frames such as <function> or CATCH are allowed in between"]
NONTRIVIAL_FLOOR = {"quick": 200, "thorough": 3000}

# (backslash-newline outside a #define is not LPC in this lexer, so continuation lines appear only inside macros)
FILLERS = ["pre_include", "blank", "blank3", "comment", "block_comment", "multiline_expr", "macro_multi", "long_stmt", "decl", "string_cont", "long_string_cont", "text_block"]
EDGES = ["direct", "direct", "call_other", "fp", "map"]
SITES = ["main", "main", "include1", "include2", "include4", "inherit", "literal", "functional", "global_init"]


class Lines:
    def __init__(self):
        self.l = []

    def add(self, text):
        first = len(self.l) + 1
        self.l.extend(text.split("\n"))
        return first

    @property
    def n(self):
        return len(self.l)

    def text(self):
        return "\n".join(self.l) + "\n"


def filler(L, kind, inside, k):
    """adds filler lines; 'inside' = inside a function body"""
    if kind == "blank":
        L.add("")
    elif kind == "blank3":
        L.add("\n\n")
    elif kind == "comment":
        L.add("  // a comment line %d" % k)
    elif kind == "block_comment":
        L.add("  /* a comment\n   * spanning\n   * lines %d */" % k)
    elif kind == "multiline_expr" and inside:
        L.add("  acc = acc +\n    %d *\n    (acc & 3) +\n    1;" % (k % 7 + 1))
    elif kind == "continuation" and inside:
        L.add("  acc = acc \\\n    + %d \\\n    + 2;" % (k % 5))
    elif kind == "macro_multi":
        L.add("#define MAC%d(x) ((x) + \\\n   1 + \\\n   2)" % k)
        if inside:
            L.add("  acc = MAC%d(acc);" % k)
    elif kind == "long_stmt" and inside:
        # one statement of well over 255 bytes of code
        L.add("  acc = " + " + ".join("(acc ^ %d)" % (i + k) for i in range(60)) + ";")
    elif kind == "pre_include" and not inside:
        # a small header (three lines) entered and left before the code that follows: from here on the lexer's line base is not zero
        L.add('#include "/t/c18pre.h"')
    elif kind == "decl" and not inside:
        L.add("int gv%d = %d;" % (k, k))
    elif kind == "string_cont":
        # a string literal continued over three lines with backslash-newline (inside and outside functions)
        L.add(('  if (gzero) tmp = "abc\\\ndef\\\nghi";' if inside else 'string sc_%d = "abc\\\ndef\\\nghi";' % k))
    elif kind == "long_string_cont":
        # the same with more than 255 characters in front of the continuations (the lexer's second string path)
        L.add(('  if (gzero) tmp = "' if inside else 'string lsc_%d = "' % k) + "x" * 270 + "\\\n" + "y" * 40 + "\\\n" + "z" * 10 + '";')
    elif kind == "text_block" and inside:
        L.add("  if (gzero) tmp = @END_T\na text block line\nanother one\nEND_T\n  ;")
    else:
        L.add("")


@st.composite
def cases(draw):
    nfun = draw(st.integers(1, 6))
    return dict(
        site=draw(st.sampled_from(SITES)),
        form=draw(st.sampled_from(FORMS)),
        fail_first=draw(st.integers(0, 3)) == 0,
        mdir=draw(st.integers(0, 4)),
        # without an error_handler() in the master the driver reports the error itself, in the debug log: the second reporting channel
        master=draw(st.sampled_from(["std", "std", "std", "absent"])),
        caught=draw(st.booleans()),
        far=draw(st.sampled_from([0, 0, 0, 0, 33000, 66000])),
        pre=draw(st.lists(st.sampled_from(FILLERS), max_size=8)),
        edges=[draw(st.sampled_from(EDGES)) for _ in range(nfun - 1)],
        bodies=[draw(st.lists(st.sampled_from(FILLERS), max_size=5)) for _ in range(nfun)],
        between=[draw(st.lists(st.sampled_from(FILLERS), max_size=3)) for _ in range(nfun)],
        inc_fill=draw(st.lists(st.sampled_from(FILLERS), max_size=6)),
    )


FORMS = ["error", "div", "div", "badarg", "index", "ret_badarg", "ret_div", "local_div"]


# directory of the main file: ordinary, or long enough for '/<file>:<line>' to pass 256 bytes
MDIRS = ["t", "t", "t", "t/" + "m" * 120 + "/" + "n" * 125, "t/" + "m" * 200 + "/" + "n" * 100]
MD = "t"


def fail_stmt(form):
    """single-line statements whose failing opcode has different operands in front of it (a constant, a global, a local, a call)"""
    return {"error": 'error("boom at the marked line\\n");',
            "div": "acc = 1 / gzero;",
            "badarg": "tmp = capitalize(gmixed);",                 # 'Bad argument 1 to capitalize()': gmixed is 0
            "index": "acc = garr[z + 5];",                          # 'Array index out of bounds'
            "ret_badarg": "return capitalize(gmixed);",
            "ret_div": "return z / gzero;",
            "local_div": "return 7 / (z - z);"}[form]


def build(case):
    """returns (files dict, expectation dict)"""
    global MD
    MD = MDIRS[case.get("mdir", 0) % len(MDIRS)]
    files = {}
    nfun = len(case["bodies"])
    site = case["site"]
    names = ["f%d" % i for i in range(nfun)]
    exp = dict(chain=[], site_file=None, site_line=None, site_func=None, program=None)
    M = Lines()
    if site == "inherit":
        M.add('inherit "/t/c18par";')
    M.add("int gzero;")
    M.add("int acc;")
    M.add("string tmp;")
    if site != "inherit":
        M.add("mixed gmixed;")
        M.add("mixed *garr = ({ });")
    M.add("void create() { seteuid(getuid()); }")
    k = 0
    for f in case["pre"]:
        k += 1
        filler(M, f, False, k)
    if case["far"]:
        M.add("\n" * (case["far"] - 1))
    # where does the last function live?
    last_in = {"include1": 1, "include2": 2, "include4": 4}.get(site, 0)
    if site == "global_init":
        ln = M.add("int gbad = 1 / gzero2();") if False else None
    # prototypes so that any order works
    for nme in names:
        M.add("mixed %s(int z);" % nme)
    M.add("int gzero2() { return 0; }")
    if site == "global_init":
        gi = M.add("int gbad = 100 / gzero2();")
        exp.update(site_file=MD + "/c18main.c", site_line=gi, site_func=None, program=MD + "/c18main.c")

    def emit_function(L, i, fname_file):
        nonlocal k
        for f in case["between"][i]:
            k += 1
            filler(L, f, False, k)
        L.add("mixed %s(int z) {" % names[i])
        lit_line = None
        if i == nfun - 1 and site == "literal":
            # local declarations must open the block: the literal is defined first, the fillers follow
            L.add("  function g = function(int q) {")
            k += 1
            filler(L, "comment", True, k)
            filler(L, "multiline_expr", True, k)
            lit_line = L.add("    " + __import__("re").sub(r"\bz\b", "q", fail_stmt(case["form"])))
            L.add("    return q;")
            L.add("  };")
        for f in ([] if (i == nfun - 1 and case.get("fail_first")) else case["bodies"][i]):
            k += 1
            filler(L, f, True, k)
        if i < nfun - 1:
            nxt = names[i + 1]
            e = case["edges"][i]
            stmt = {"direct": "  return %s(z + 1);" % nxt,
                    "call_other": '  return call_other(this_object(), "%s", z + 1);' % nxt,
                    "fp": "  return evaluate((: %s :), z + 1);" % nxt,
                    "map": "  return map(({ z + 1 }), (: %s :))[0];" % nxt}[e]
            ln = L.add(stmt)
            exp["chain"].append((names[i], fname_file, ln))
        else:
            if site == "literal":
                ln = lit_line
                cl = L.add("  return evaluate(g, z);")
                exp["chain"].append((names[i], fname_file, cl))
                exp.update(site_file=fname_file, site_line=ln, site_func="<function>")
            elif site == "functional":
                ln = L.add('  return evaluate((: %s :));' % ('error("boom at the marked line\\n")' if case["form"] == "error" else "1 / gzero"))
                exp["chain"].append((names[i], fname_file, ln))
                exp.update(site_file=fname_file, site_line=ln, site_func="<function>")
            elif site == "global_init":
                L.add("  return z;")
            else:
                ln = L.add("  " + fail_stmt(case["form"]))
                exp["chain"].append((names[i], fname_file, ln))
                exp.update(site_file=fname_file, site_line=ln, site_func=names[i])
            L.add("  return acc;")
        L.add("}")

    upto = nfun - 1 if (last_in or site == "inherit") else nfun
    for i in range(upto):
        emit_function(M, i, MD + "/c18main.c")
    if last_in:
        # a chain of nested include files; the innermost defines the last function
        M.add('#include "/t/c18inc1.h"')
        for d in range(1, last_in + 1):
            I = Lines()
            for f in case["inc_fill"][:d + 1]:
                k += 1
                filler(I, f, False, k)
            if d < last_in:
                I.add('#include "/t/c18inc%d.h"' % (d + 1))
                I.add("int after_inc%d() { return %d; }" % (d, d))
            else:
                emit_function(I, nfun - 1, "t/c18inc%d.h" % d)
            files["t/c18inc%d.h" % d] = I.text()
        M.add("int after_includes() { return 1; }")
    if site == "inherit":
        P = Lines()
        P.add("int gzero;")
        P.add("int acc;")
        P.add("string tmp;")
        P.add("mixed gmixed;")
        P.add("mixed *garr = ({ });")
        for f in case["inc_fill"]:
            k += 1
            filler(P, f, False, k)
        emit_function(P, nfun - 1, "t/c18par.c")
        files["t/c18par.c"] = P.text()
        exp["program"] = "t/c18par.c"
    elif exp["program"] is None:
        exp["program"] = MD + "/c18main.c"
    # entry point
    if case["caught"]:
        rl = M.add("mixed run() { mixed e = catch(f0(0)); return e; }")
    else:
        rl = M.add("mixed run() { return f0(0); }")
    exp["run_line"] = rl
    files[MD + "/c18main.c"] = M.text()
    files["t/c18pre.h"] = "// a header of three lines\n#define C18_PRE 1\nint c18_pre_declared();\n"
    return files, exp


def norm(p):
    return (p or "").lstrip("/")


def evaluate_case(ctx, w, case):
    files, exp = build(case)
    for path, text in files.items():
        w.write(path, text)
    steps = [["call", "/master", "set_policy", arg("handler"), arg("trace")], ["call", "/master", "verif_errors"], ["load", MD + "/c18main.c"],
             ["call", "/master", "verif_take_compile_errors"]]
    if case["site"] != "global_init":
        steps += [["call", MD + "/c18main", "run"]]
    steps += [["call", "/master", "verif_errors"]]
    res = w.run(steps)
    info = "case %r\nexpectation %r\n--- main file (first 60 lines)\n%s" % (case, exp, "\n".join("%4d %s" % (i + 1, l) for i, l in enumerate(files[MD + "/c18main.c"].split("\n")[:60])))
    if res.timed_out:
        ctx.inconclusive["timeout"] += 1
        return None, None
    cr = res.crash()
    if cr:
        return ("crash:" + cr[1][:70], info + "\n" + cr[2][:2500]), None
    ld = res.step(2)
    if case["site"] != "global_init" and (not ld or ld.get("st") != "ok"):
        ce = res.step(3)
        return ("layout-rejected", "compile errors %r\n%s" % (ce, info)), None
    er = res.step(len(steps) - 1)
    errs = [x for x in unjson(er["v"])[1]] if er and er.get("st") == "val" else []
    errs = [dict((k, v) for k, v in e[1]) for e in errs]
    want_caught = 1 if case["caught"] and case["site"] != "global_init" else 0
    mine = [e for e in errs if any(t in e.get("error", "") for t in ("boom", "ivision", "Bad argument", "ndex out of bounds"))]
    absent = case.get("master") == "absent"
    if absent:
        # the driver's own report: {"object":"..","program":"..","line":"/<file>:<line>"}<tab><message>
        import json as _json
        for ln in res.stderr.split("\n"):
            if ln.startswith('{"object"') and "\t" in ln and any(t in ln for t in ("boom", "ivision", "Bad argument", "ndex out of bounds")):
                try:
                    hd = _json.loads(ln.split("\t")[0])
                except ValueError:
                    continue
                loc = hd.get("line", "")
                fpart, _, lpart = loc.rpartition(":")
                mine.append(dict(error=ln.split("\t", 1)[1], file=fpart, line=int(lpart) if lpart.isdigit() else loc, program=hd.get("program"),
                                 object=hd.get("object"), caught=want_caught, trace=None))
                break
    if not mine:
        return ("error-not-handed-to-master", "errors seen %r\n%s" % (errs, info)), None
    e = mine[0]
    if e.get("caught") != want_caught:
        return ("caught-flag-wrong", "caught flag %r, expected %r\n%s" % (e.get("caught"), want_caught, info)), None
    # file and line of the failing statement
    if norm(e.get("file")) != exp["site_file"] or e.get("line") != exp["site_line"]:
        kind = "file" if norm(e.get("file")) != exp["site_file"] else "line"
        return ("wrong-%s:%s%s" % (kind, case["site"], ":beyond-65535" if exp["site_line"] > 65535 else ""), "error_handler got file %r line %r, the statement is at %s:%d\n%s" % (e.get("file"), e.get("line"), exp["site_file"], exp["site_line"], info)), None
    if norm(e.get("program")) != exp["program"]:
        return ("wrong-program:" + case["site"], "error_handler got program %r, expected %r\n%s" % (e.get("program"), exp["program"], info)), None
    if case["site"] != "global_init":
        if norm(e.get("object")) != MD + "/c18main":
            return ("wrong-object", "error_handler got object %r\n%s" % (e.get("object"), info)), None
        if absent:
            nt = exp["site_line"] > 10
            return None, nt
        # the trace: our functions in order, innermost last, with call-site lines
        tr = [dict((k, v) for k, v in f[1]) for f in e.get("trace", ("a", []))[1]]
        seq = [(f.get("function"), norm(f.get("file")), f.get("line")) for f in tr]
        want = [("run", MD + "/c18main.c", exp["run_line"])] + exp["chain"]
        pos = 0
        for wfn, wfile, wline in want:
            found = None
            for j in range(pos, len(seq)):
                if seq[j][0] == wfn:
                    found = j
                    break
            if found is None:
                return ("trace-misses-frame", "frame %s not found (in order) in trace %r\nwanted %r\n%s" % (wfn, seq, want, info)), None
            if seq[found][1] != wfile or seq[found][2] != wline:
                # the innermost frame of a literal/functional site is the <function> frame; the enclosing function's call line still applies
                return ("trace-frame-location:" + case["site"] + (":beyond-65535" if wline > 65535 else ""), "frame %s is reported at %s:%r, its call site is %s:%d\ntrace %r\n%s" % (wfn, seq[found][1], seq[found][2], wfile, wline, seq, info)), None
            pos = found + 1
        last = seq[-1]
        if exp["site_func"] and last[0] != exp["site_func"]:
            return ("innermost-frame-wrong", "innermost frame is %r, expected function %r\ntrace %r\n%s" % (last, exp["site_func"], seq, info)), None
    nt = exp["site_line"] > 10 and (case["site"] in ("include1", "include2", "include4", "inherit", "literal", "functional") or "long_stmt" in sum(case["bodies"], []) or case["far"])
    return None, nt


_workers = {}


def get_worker(ctx, master="std"):
    key = (ctx.rundir, master)
    w = _workers.get(key)
    if w is None:
        files = {}
        if master == "absent":
            import os
            from ..worker import BASE_MUDLIB
            files["master.c"] = open(os.path.join(BASE_MUDLIB, "master.c")).read().replace("mixed error_handler(", "mixed error_handler_absent(")
        w = Worker(ctx.scratch("w" + master), timeout=30, mudlib_files=files)
        _workers[key] = w
    return w


def close_workers(ctx):
    for key in [k for k in _workers if k[0] == ctx.rundir]:
        _workers.pop(key).close()


def check(ctx, case):
    f, nt = evaluate_case(ctx, get_worker(ctx, case.get("master", "std")), case)
    if f:
        ctx.evaluations += 1
        ctx.fail(f[0], case, f[1])
        return
    if nt is None:
        ctx.case_done(None, ["not-executed"])
        return
    cl = ["site:" + case["site"], "form:" + case["form"], "master:" + case.get("master", "std"), "long-path" if case.get("mdir", 0) >= 3 else "short-path", "caught" if case["caught"] else "uncaught"] + (["far:%d" % case["far"]] if case["far"] else [])
    ctx.case_done(runner.khash(case) if nt else None, cl, sample=dict(site=case["site"], edges=case["edges"], far=case["far"], pre=case["pre"]))


def shard_main(ctx):
    from hypothesis import given
    n = {"quick": 1800, "thorough": 20000}[ctx.tier]

    @given(cases())
    def test(case):
        check(ctx, case)

    try:
        runner.run_hypothesis(ctx, test, n)
    finally:
        close_workers(ctx)


def replay(ctx, case):
    try:
        f, _ = evaluate_case(ctx, get_worker(ctx, case.get("master", "std")), case)
        return f
    finally:
        close_workers(ctx)
