"""C08 - object names, inventories and destruction stay consistent.

Histories of load / clone / move / destruct / enable_commands / set_living_name / add_action / command /
present / find_living issued at top level and re-entrantly from create / init / move_or_destruct / id hooks
(a script daemon arms 'when hook H fires on object O do A'). After every top-level step: the C invariant
walker over the driver's own structures (harness/lpcvm.cpp check_invariants) and a cross-view consistency
check through efuns (objects / find_object / environment / all_inventory / livings / held references)."""
from hypothesis import strategies as st

from .. import runner
from ..worker import Worker, arg, unjson

LEVEL = "exploration"
RULE = ("cases = histories of 5-60 operations over up to 30 objects (6 blueprints + clones): load, clone, move(a,b), destruct, enable/disable_commands, "
        "set_living_name, add_action, command, present, find_living, plus armed hooks: on the next create / init / move_or_destruct / id of an object, "
        "move / destruct (self, container, sibling, destination) / clone / raise an error. non-trivial = the history performed a re-entrant move or "
        "destruct, or an operation failed; distinct = op-kind sequence hash")
ASSUMPTIONS = ["the invariant walker reads the driver's own lists (obj_list, obj_list_destruct, name hash, inventories, living hash, heart beats, users)",
               "no exact abstract model is claimed: consistency invariants and cross-view agreement only"]
NONTRIVIAL_FLOOR = {"quick": 200, "thorough": 3000}

NB = 6
SCRIPT = r'''
mixed *refs = ({ });          // every object ever created, by index
mapping armed = ([ ]);        // hook -> list of ({ subject index or -1, action, a, b })
mixed *fired = ({ });
int depth;
void create() { seteuid(getuid()); }
int reg(object o) { refs += ({ o }); return sizeof(refs) - 1; }
object ref(int i) { return sizeof(refs) ? refs[i % sizeof(refs)] : 0; }
void arm(string hook, int subject, string action, int a, int b) {
  if (!armed[hook]) armed[hook] = ({ });
  armed[hook] += ({ ({ subject, action, a, b }) });
}
// half of the files live under a path whose first 40 characters (all the name table hashes) are the same: blueprints and clones of
// these files share one hash chain
string fname(int k) { return k < 3 ? "/t/o" + k : "/t/c08_a_directory_name_longer_than_the_forty_hashed_characters/o" + k; }
// the same file under the spellings the driver accepts for it: source suffixes (also repeated), extra or missing leading slashes
string spelled(int k, int sp) {
  string n = fname(k);
  switch (sp % 8) {
  case 2: return n + ".c";
  case 3: return n + ".c.c";
  case 4: return "/" + n;
  case 5: return n[1..];
  case 6: return n[1..] + ".c.c.c";
  case 7: return "//" + n + ".c";
  }
  return n;
}
mixed perform(string action, int a, int b) {
  object x = ref(a), y = ref(b);
  switch (action) {
  case "move": if (x && y) { x->do_move(y); return 1; } return 0;
  case "destruct": if (x) { destruct(x); return 1; } return 0;
  case "clone": { object o = new(spelled(a % 6, b)); return 1; }
  case "load": { object o = load_object(spelled(a % 6, b)); return objectp(o); }
  case "call_named": return call_other(spelled(a % 6, b), "query_idx");
  case "error": error("hook fault\n");
  case "living": if (x) { x->do_living("liv" + (b % 4)); return 1; } return 0;
  case "unliving": if (x) { x->do_unliving(); return 1; } return 0;
  case "action": if (x) { x->do_add_action("verb" + (b % 3)); return 1; } return 0;
  case "command": if (x) return x->do_command("verb" + (b % 3) + " arg"); return 0;
  case "present": if (y) return objectp(present("thing" + (a % 6), y)); return 0;
  case "find_living": return objectp(find_living("liv" + (a % 4)));
  case "heart": if (x) { x->do_heart(b % 2); return 1; } return 0;
  }
  return -1;
}
void fire(string hook, object who) {
  mixed *l = armed[hook];
  int i;
  if (!l || depth > 3) return;
  for (i = 0; i < sizeof(l); i++) {
    if (l[i][0] == -1 || ref(l[i][0]) == who) {
      mixed *e = l[i];
      armed[hook] = l[0..i - 1] + l[i + 1..];
      fired += ({ ({ hook, e[1] }) });
      depth++;
      perform(e[1], e[2], e[3]);
      depth--;
      return;
    }
  }
}
mixed op(string action, int a, int b) { depth = 0; return perform(action, a, b); }
mixed *take_fired() { mixed *f = fired; fired = ({ }); return f; }
string *crossview() {
  string *bad = ({ });
  object *all = objects();
  foreach (object o in all) {
    string n = file_name(o);
    object e;
    if (find_object(n) != o) bad += ({ "find_object(" + n + ") is not the object listed by objects()" });
    e = environment(o);
    if (e && member_array(o, all_inventory(e)) == -1) bad += ({ n + " is not in all_inventory(environment)" });
    foreach (object x in all_inventory(o)) if (environment(x) != o) bad += ({ file_name(x) + " listed in inventory of " + n + " has another environment" });
  }
  foreach (object l in livings()) if (member_array(l, all) == -1) bad += ({ "livings() lists an object unknown to objects()" });
  foreach (object h in heart_beats()) if (member_array(h, all) == -1) bad += ({ "heart_beats() lists an object unknown to objects()" });
  foreach (mixed r in refs) if (r && !objectp(r)) bad += ({ "a held reference reads neither 0 nor an object" });
  foreach (mixed r in refs) if (objectp(r) && member_array(r, all) == -1) bad += ({ "a held reference reads as an object that objects() does not list: " + file_name(r) });
  return bad;
}
'''
BASE = r'''
int idx;
void create() { seteuid(getuid()); idx = "/t/c08script"->reg(this_object()); "/t/c08script"->fire("create", this_object()); }
void init() { "/t/c08script"->fire("init", this_object()); }
int move_or_destruct(object dest) { "/t/c08script"->fire("mod", this_object()); return 0; }
int id(string s) { "/t/c08script"->fire("id", this_object()); return s == "thing" + (idx % 6); }
void do_move(object d) { move_object(d); }
void do_living(string n) { enable_commands(); set_living_name(n); }
void do_unliving() { disable_commands(); }
void do_add_action(string v) { add_action("act", v); }
int act(string a) { "/t/c08script"->fire("action", this_object()); return 1; }
int do_command(string c) { return command(c); }
void do_heart(int on) { set_heart_beat(on); }
int query_idx() { return idx; }
void heart_beat() { }
'''

ACTIONS = ["move", "move", "move", "destruct", "destruct", "clone", "load", "living", "unliving", "action", "command", "present", "find_living", "heart", "call_named", "error"]
HOOKS = ["create", "init", "mod", "id", "action"]


@st.composite
def histories(draw):
    n = draw(st.integers(5, 60))
    ev = [dict(k="op", action="load", a=i, b=0) for i in range(draw(st.integers(1, NB)))]
    for _ in range(n):
        if draw(st.integers(0, 3)) == 0:
            ev.append(dict(k="arm", hook=draw(st.sampled_from(HOOKS)), subject=draw(st.one_of(st.just(-1), st.integers(0, 29))),
                           action=draw(st.sampled_from(["move", "destruct", "destruct", "clone", "error", "living", "move"])),
                           a=draw(st.integers(0, 29)), b=draw(st.integers(0, 29))))
        else:
            ev.append(dict(k="op", action=draw(st.sampled_from(ACTIONS[:-1])), a=draw(st.integers(0, 29)), b=draw(st.integers(0, 29))))
    return dict(events=ev)


def evaluate_case(ctx, w, case):
    steps = [["load", "t/c08script.c"]]
    idx = []
    for e in case["events"]:
        if e["k"] == "arm":
            steps.append(["call", "t/c08script", "arm", arg(e["hook"]), arg(e["subject"]), arg(e["action"]), arg(e["a"]), arg(e["b"])])
            idx.append(None)
        else:
            steps.append(["call", "t/c08script", "op", arg(e["action"]), arg(e["a"]), arg(e["b"])])
            steps.append(["gc"] if e["a"] % 5 == 0 else ["regs"])
            steps.append(["invariants"])
            steps.append(["call", "t/c08script", "crossview"])
            steps.append(["call", "t/c08script", "take_fired"])
            idx.append(len(steps) - 5)
    res = w.run(steps)
    hist = "history %r" % (case["events"],)
    if res.timed_out:
        ctx.inconclusive["timeout"] += 1
        return None, None
    cr = res.crash()
    if cr:
        return ("crash:" + cr[1][:70], hist + "\n" + cr[2][:2500]), None
    feats = set()
    for e, si in zip(case["events"], idx):
        if si is None:
            continue
        r = res.step(si) or {}
        if r.get("st") == "err":
            feats.add("failed-op")
        inv = res.step(si + 2, "invariants")
        if not inv:
            return ("no-invariant-record", "%r\n%s" % (e, hist)), None
        if inv["bad"]:
            return ("invariant:" + inv["bad"][0].split(" ")[0] + ":" + " ".join(inv["bad"][0].split(" ")[2:6]), "after %r: %r\n%s" % (e, inv["bad"], hist)), None
        cv = res.step(si + 3) or {}
        if cv.get("st") == "val":
            bad = unjson(cv["v"])[1]
            if bad:
                return ("crossview:" + " ".join(bad[0].split(" ")[-6:]), "after %r: %r\n%s" % (e, bad, hist)), None
        elif cv.get("st") == "err":
            return ("crossview-raised", "after %r: %r\n%s" % (e, cv, hist)), None
        fr = res.step(si + 4) or {}
        if fr.get("st") == "val":
            for f in unjson(fr["v"])[1]:
                feats.add("reentrant:%s:%s" % (f[1][0], f[1][1]))
    return None, feats


_workers = {}


def get_worker(ctx):
    w = _workers.get(ctx.rundir)
    if w is None:
        fl = {"t/c08script.c": SCRIPT, "t/c08base.c": BASE}
        for k in range(NB):
            fl[("t/o%d.c" if k < 3 else "t/c08_a_directory_name_longer_than_the_forty_hashed_characters/o%d.c") % k] = 'inherit "/t/c08base";\n'
        w = Worker(ctx.scratch("w"), timeout=20, mudlib_files=fl)
        _workers[ctx.rundir] = w
    return w


def close_workers(ctx):
    w = _workers.pop(ctx.rundir, None)
    if w:
        w.close()


def check(ctx, case):
    f, feats = evaluate_case(ctx, get_worker(ctx), case)
    if f:
        ctx.evaluations += 1
        ctx.fail(f[0], case, f[1])
        return
    if feats is None:
        ctx.case_done(None, ["not-executed"])
        return
    nt = any(x.startswith("reentrant:") and (x.endswith(":move") or x.endswith(":destruct")) for x in feats) or "failed-op" in feats
    ctx.case_done(runner.khash([(e["k"], e.get("action"), e.get("hook")) for e in case["events"]]) if nt else None, sorted(feats), sample=case["events"][:12])


def shard_main(ctx):
    from hypothesis import given
    n = {"quick": 1000, "thorough": 20000}[ctx.tier]

    @given(histories())
    def test(case):
        check(ctx, case)

    try:
        runner.run_hypothesis(ctx, test, n)
    finally:
        close_workers(ctx)


def replay(ctx, case):
    try:
        f, _ = evaluate_case(ctx, get_worker(ctx), case)
        return f
    finally:
        close_workers(ctx)
