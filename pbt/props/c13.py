"""C13 - input framing ignores packet boundaries and survives any byte stream.

Byte streams from a telnet/line grammar x segmentations into reads, fed through real loopback TCP connections
into the real backend loop. Oracles: segmentation invariance (every segmentation of one stream yields the same
list of lines at the user object), a reference split for plain streams, no negotiation bytes in command text,
and for over-long / malformed streams memory safety and a still-usable connection."""
from hypothesis import strategies as st

from .. import runner
from ..worker import Worker, arg, unjson

LEVEL = "exploration"
RULE = ("cases = client byte streams built from text runs (7-bit and 8-bit), CR / LF / CR LF / CR NUL / LF CR, NUL, backspace and DEL, IAC IAC, "
        "IAC + command, WILL/WONT/DO/DONT + option, sub-negotiations (TTYPE IS, NAWS, LINEMODE, unknown; complete, unterminated, with embedded IAC IAC, "
        "longer than the sub-negotiation buffer), lines of 0..3000 bytes, x 4 segmentations (one write, byte-by-byte, random cuts, cuts inside every "
        "multi-byte construct), on telnet and ASCII ports. non-trivial = a cut falls inside CR LF, an IAC sequence or a sub-negotiation, or a line "
        "exceeds 2048 bytes; distinct = (stream hash, segmentation hash)")
ASSUMPTIONS = ["after each segment the harness waits until the driver-side socket holds the bytes (FIONREAD) and runs backend cycles until the input is consumed",
               "segmentation invariance is asserted for streams whose lines are at most 400 bytes; longer lines only have to be handled safely (cut or discarded) and leave the connection usable",
               "the reference split is asserted only for plain streams (text with LF or CR LF line ends)"]
NONTRIVIAL_FLOOR = {"quick": 200, "thorough": 3000}

IAC, DONT, DO, WONT, WILL, SB, SE = 255, 254, 253, 252, 251, 250, 240

text7 = st.text(alphabet="abcdefgh XYZ019.,", min_size=0, max_size=30).map(lambda t: t.encode())
text8 = st.binary(min_size=1, max_size=8).map(lambda b: bytes(c if c not in (0, 10, 13, 255, 8, 127) else 65 for c in b))
eol = st.sampled_from([b"\r\n", b"\n", b"\r\n", b"\n", b"\r\x00", b"\r", b"\n\r"])
edit = st.sampled_from([b"\x08", b"\x7f", b"\x00", b"\x08\x08\x08"])
iac_cmd = st.sampled_from([241, 242, 243, 244, 245, 246, 247, 248, 249]).map(lambda c: bytes([IAC, c]))
iac_opt = st.tuples(st.sampled_from([WILL, WONT, DO, DONT]), st.sampled_from([1, 3, 24, 31, 34, 0, 5, 200, 255])).map(lambda t: bytes([IAC, t[0], t[1]]))
sb_body = st.one_of(st.just(bytes([24, 0]) + b"xterm"), st.just(bytes([31, 0, 80, 0, 24])), st.just(bytes([34, 1, 3])), st.just(bytes([34, 3, 1, 2, 3, 4, 5, 6])),
                    st.binary(min_size=0, max_size=12).map(lambda b: bytes(c for c in b if c != 255)), st.just(bytes([24, 0]) + b"x" * 150),
                    st.just(bytes([99]) + b"y" * 300), st.just(bytes([31, 0, 255, 255, 0, 24])))
iac_sb = st.tuples(sb_body, st.sampled_from(["full", "full", "unterminated", "nose"])).map(
    lambda t: bytes([IAC, SB]) + t[0] + (bytes([IAC, SE]) if t[1] == "full" else (b"" if t[1] == "unterminated" else bytes([IAC]))))
chunk = st.one_of(text7, text7, text7, text8, eol, eol, eol, edit, st.just(bytes([IAC, IAC])), iac_cmd, iac_opt, iac_sb)
longline = st.integers(600, 3000).map(lambda n: b"L" * n + b"\r\n")


@st.composite
def cases(draw):
    port = draw(st.sampled_from(["telnet", "telnet", "telnet", "ascii"]))
    kind = draw(st.sampled_from(["normal", "normal", "normal", "plain", "long"]))
    if kind == "plain":
        parts = []
        for _ in range(draw(st.integers(1, 10))):
            parts.append(draw(st.text(alphabet="abcdefgh XYZ019", min_size=0, max_size=40)).encode() + (b"\r\n" if port == "telnet" else b"\n"))
        stream = b"".join(parts)
    elif kind == "long":
        stream = b"".join(draw(st.lists(st.one_of(chunk, longline), min_size=2, max_size=12))) + b"\r\nafter\r\n"
    else:
        stream = b"".join(draw(st.lists(chunk, min_size=1, max_size=25)))
        if port == "ascii":
            stream = bytes(c for c in stream if c != 0)
        stream += b"\n" if port == "ascii" else b"\r\n"
    ncuts = draw(st.integers(1, 8))
    cuts = sorted(set(draw(st.lists(st.integers(1, max(len(stream) - 1, 1)), min_size=ncuts, max_size=ncuts))))
    return dict(port=port, kind=kind, stream=stream.hex(), cuts=cuts)


def segmentations(stream, cuts):
    segs = {"whole": [stream], "bytes": [stream[i:i + 1] for i in range(len(stream))]}
    pts = [c for c in cuts if 0 < c < len(stream)]
    segs["random"] = [stream[a:b] for a, b in zip([0] + pts, pts + [len(stream)])]
    # cuts inside every multi-byte construct: after each CR and after each IAC (and the byte after it)
    sp = sorted({i + 1 for i, c in enumerate(stream) if c in (13, 255)} | {i + 2 for i, c in enumerate(stream) if c == 255})
    sp = [p for p in sp if 0 < p < len(stream)]
    segs["inside"] = [stream[a:b] for a, b in zip([0] + sp, sp + [len(stream)])]
    if len(stream) > 400:
        segs["bytes"] = [stream[i:i + 7] for i in range(0, len(stream), 7)]       # keep long streams affordable
    return segs


def run_stream(w, port, segments, nlines):
    pidx = 0 if port == "telnet" else 1
    steps = [["load", "t/c13tap.c"], ["backend"], ["connect", "c", str(pidx)], ["cycle", "3"]]
    for sg in segments:
        if not sg:
            continue
        steps.append(["send", "c", sg])
        steps.append(["cycle", "2"])
    steps.append(["cycle", str(nlines + 6)])
    if port == "telnet":
        # close whatever construct the stream left open (IAC SE twice: once for a pending IAC, once for an open sub-negotiation)
        steps.append(["send", "c", b"\xff\xf0\xff\xf0\r\n"])
        steps.append(["cycle", "3"])
    else:
        steps.append(["send", "c", b"\n"])
        steps.append(["cycle", "3"])
    steps.append(["send", "c", b"probe-line\r\n" if port == "telnet" else b"probe-line\n"])
    steps.append(["cycle", "4"])
    steps.append(["recv", "c"])
    steps.append(["call", "t/c13tap", "lines"])
    fin = len(steps) - 1
    steps.append(["endbackend"])
    res = w.run(steps)
    return res, fin


def evaluate_case(ctx, w, case):
    stream = bytes.fromhex(case["stream"])
    port = case["port"]
    segs = segmentations(stream, case["cuts"])
    # one command per cycle, and a telnet read takes at most ~680 bytes: leave enough cycles for both
    nlines = stream.count(b"\n") + stream.count(b"\r") + 2 + len(stream) // 300
    info = "port %s kind %s stream %r" % (port, case["kind"], stream[:600])
    outs = {}
    for name, sg in segs.items():
        res, fin = run_stream(w, port, sg, min(nlines, 120))
        if res.timed_out:
            ctx.inconclusive["timeout"] += 1
            return None, None
        cr = res.crash()
        if cr:
            return ("crash:" + cr[1][:70], "%s\nsegmentation %s %r\n%s" % (info, name, [len(x) for x in sg][:50], cr[2][:2500])), None
        r = res.step(fin)
        if not r or r.get("st") != "val":
            return ("no-input-log", "%s\nsegmentation %s: %r" % (info, name, res.recs[-3:])), None
        lines = [x for x in unjson(r["v"])[1]]
        outs[name] = lines
        # (4) the connection is still usable: the probe line arrives
        if "probe-line" not in lines:
            return ("connection-unusable-after-stream:" + port, "%s\nsegmentation %s delivered %r" % (info, name, lines[-5:])), None
    longest = max([len(x) for x in stream.replace(b"\r", b"\n").split(b"\n")] or [0])
    # (3) no telnet negotiation byte in command text (a 0xff can only come from a quoted IAC IAC)
    if port == "telnet" and bytes([IAC, IAC]) not in stream:
        for name, lines in outs.items():
            for l in lines:
                if "\xff" in l:
                    return ("iac-byte-in-command-text", "%s\nsegmentation %s delivered %r" % (info, name, l[:200])), None
    # (1) segmentation invariance
    if longest <= 400:
        ref = outs["bytes"]
        for name, lines in outs.items():
            if lines != ref:
                return ("segmentation-dependent:%s:%s" % (port, name), "%s\nbyte-by-byte delivered %r\n%s (%r) delivered %r" % (
                    info, ref[:12], name, [len(x) for x in segs[name]][:30], lines[:12])), None
    # (2) reference split for plain streams
    if case["kind"] == "plain":
        # (the resynchronising line end sent before the probe adds one empty line)
        exp = [l.decode("latin-1") for l in stream.replace(b"\r\n", b"\n").split(b"\n")[:-1]] + ["", "probe-line"]
        if outs["whole"] != exp:
            return ("plain-stream-split-wrong:" + port, "%s\nexpected %r\ndelivered %r" % (info, exp[:12], outs["whole"][:12])), None
    inside = any(len(s) and s[-1] in (13, 255) for s in segs["inside"][:-1])
    return None, dict(inside=inside, longest=longest)


TAP = r'''
// collects what the user objects are handed, in order
string *got = ({ });
void add(string s) { got += ({ s }); }
string *lines() { return got; }
'''
USER = r'''
void create() { seteuid(getuid()); }
void logon() { }
mixed process_input(string s) { "/t/c13tap"->add(s); return 1; }
void net_dead() { }
void write_prompt() { }
void set_terminal_type(string t) { }
void set_window_size(int w, int h) { }
void catch_tell(string s) { }
'''

_workers = {}


def get_worker(ctx):
    w = _workers.get(ctx.rundir)
    if w is None:
        w = Worker(ctx.scratch("w"), timeout=30, mudlib_files={"t/c13tap.c": TAP, "user.c": USER}, ports=["4000:telnet", "4001:ascii"])
        _workers[ctx.rundir] = w
    return w


def close_workers(ctx):
    w = _workers.pop(ctx.rundir, None)
    if w:
        w.close()


def check(ctx, case):
    f, info = evaluate_case(ctx, get_worker(ctx), case)
    if f:
        ctx.evaluations += 1
        ctx.fail(f[0], case, f[1])
        return
    if info is None:
        ctx.case_done(None, ["not-executed"])
        return
    nt = info["inside"] or info["longest"] > 2048
    ctx.case_done(runner.khash(case) if nt else None, ["port:" + case["port"], "kind:" + case["kind"]] + (["cut-inside-construct"] if info["inside"] else []) +
                  (["line>2048"] if info["longest"] > 2048 else []), sample=dict(port=case["port"], stream=case["stream"][:160], cuts=case["cuts"]))


def shard_main(ctx):
    from hypothesis import given
    n = {"quick": 500, "thorough": 8000}[ctx.tier]

    @given(cases())
    def test(case):
        check(ctx, case)

    try:
        runner.run_hypothesis(ctx, test, n)
    finally:
        close_workers(ctx)


def replay(ctx, case):
    try:
        f, _ = evaluate_case(ctx, get_worker(ctx), case)
        return f
    finally:
        close_workers(ctx)
