"""Shared driver of all property checks: tiers, VERIF_SEED, 16-way sharding, known
findings, replays, VIOLATION / KNOWN-FINDING lines, evidence writer. DESIGN.md 3."""
import hashlib, importlib, json, multiprocessing, os, random, re, shutil, sys, time, traceback
from collections import Counter

from . import build

VERIF = build.VERIF
WORK = build.WORK
NSHARDS = int(os.environ.get("VERIF_SHARDS", "16"))


def derive_seed(seed, prop, shard):
    h = hashlib.sha256(("%d|%s|%d" % (seed, prop, shard)).encode()).digest()
    return int.from_bytes(h[:8], "big")


def khash(obj):
    return hashlib.sha1(json.dumps(obj, sort_keys=True, default=repr).encode()).hexdigest()[:16]


class Failure(Exception):
    """raised inside a Hypothesis test for a failure that is not a known finding"""
    def __init__(self, sig, case, detail=""):
        Exception.__init__(self, sig)
        self.sig, self.case, self.detail = sig, case, detail


class Ctx:
    """per-shard context handed to a property module"""
    def __init__(self, prop, tier, seed, shard, nshards, known):
        self.prop, self.tier, self.seed, self.shard, self.nshards = prop, tier, seed, shard, nshards
        self.hseed = derive_seed(seed, prop, shard)
        self.known = known                      # list of known-finding dicts for this property
        self.evaluations = 0
        self.nontrivial = set()
        self.classes = Counter()
        self.samples = []
        self.known_seen = Counter()
        self.excluded = Counter()
        self.inconclusive = Counter()
        self.failures = []                      # dicts: sig, case, detail
        self.rundir = os.path.join(WORK, "run", "%s-%d" % (prop, os.getpid()), "s%d" % shard)
        self.extra = {}

    def scratch(self, name=""):
        d = os.path.join(self.rundir, name) if name else self.rundir
        os.makedirs(d, exist_ok=True)
        return d

    def case_done(self, key=None, classes=(), sample=None):
        """count one executed case; key is not None iff it was non-trivial by the property's rule"""
        self.evaluations += 1
        if key is not None:
            self.nontrivial.add(key if isinstance(key, str) else khash(key))
        for c in classes:
            self.classes[c] += 1
        if sample is not None and len(self.samples) < 4 and key is not None:
            self.samples.append(sample)

    def is_known(self, sig):
        for k in self.known:
            if k.get("status") == "known" and re.search(k["sig_re"], sig):
                return k
        return None

    def fail(self, sig, case, detail=""):
        """report a failing case from inside a Hypothesis test: known findings are counted and the
        search continues; anything else raises so that Hypothesis shrinks it."""
        k = self.is_known(sig)
        if k:
            self.known_seen[k["id"]] += 1
            return
        try:  # triage aid only (flaky failures would otherwise leave no trace); never read back by a check
            with open(os.path.join(WORK, "failures-seen.log"), "a") as fh:
                fh.write("=== %s %s seed=%s shard=%s\n%s\n%s\n" % (self.prop, sig, self.seed, self.shard, json.dumps(case)[:200000], detail[:30000]))
        except OSError:
            pass
        raise Failure(sig, case, detail)

    def result(self):
        return dict(evaluations=self.evaluations, nontrivial=sorted(self.nontrivial), classes=dict(self.classes),
                    samples=self.samples, known_seen=dict(self.known_seen), excluded=dict(self.excluded),
                    inconclusive=dict(self.inconclusive), failures=self.failures, extra=self.extra)


def hyp_settings(ctx, max_examples, **kw):
    from hypothesis import settings, HealthCheck, Phase
    return settings(max_examples=max_examples, database=None, deadline=None, derandomize=False,
                    report_multiple_bugs=False, print_blob=False,
                    suppress_health_check=[HealthCheck.too_slow, HealthCheck.data_too_large, HealthCheck.filter_too_much, HealthCheck.large_base_example],
                    phases=[Phase.generate, Phase.shrink], **kw)


def run_hypothesis(ctx, test, max_examples, **kw):
    """runs a Hypothesis test function with this shard's derived seed; records a shrunk Failure"""
    from hypothesis import seed
    import hypothesis.internal.conjecture.engine as _eng
    # a wall-clock cap on *shrinking* only: it never decides pass/fail, it only bounds how minimal the replay is
    _eng.MAX_SHRINKING_SECONDS = 45 if ctx.tier == "quick" else 240
    t = seed(ctx.hseed)(hyp_settings(ctx, max_examples, **kw)(test))
    try:
        t()
    except Failure as f:
        ctx.failures.append(dict(sig=f.sig, case=f.case, detail=f.detail[:8000]))
    except Exception as e:  # harness bug or hypothesis error: never a violation
        if isinstance(getattr(e, "__cause__", None), Failure):
            f = e.__cause__
            ctx.failures.append(dict(sig=f.sig, case=f.case, detail=f.detail[:8000]))
        else:
            ctx.inconclusive["harness-exception:" + type(e).__name__] += 1
            ctx.extra.setdefault("exceptions", []).append(traceback.format_exc()[-3000:])


def _shard_entry(args):
    modname, prop, tier, seed, shard, nshards, known = args
    mod = importlib.import_module(modname)
    ctx = Ctx(prop, tier, seed, shard, nshards, known)
    try:
        import resource
        soft, hard = resource.getrlimit(resource.RLIMIT_AS)
        resource.setrlimit(resource.RLIMIT_AS, (4 << 30, hard))   # generator/oracle side only; workers lift it again
    except Exception:
        pass
    try:
        mod.shard_main(ctx)
    except Exception:
        ctx.inconclusive["shard-crashed"] += 1
        ctx.extra.setdefault("exceptions", []).append(traceback.format_exc()[-3000:])
    finally:
        shutil.rmtree(ctx.rundir, ignore_errors=True)
    return ctx.result()


def _shard_proc(a, q):
    try:
        q.put((a[4], _shard_entry(a)))
    except BaseException:
        q.put((a[4], dict(evaluations=0, nontrivial=[], classes={}, samples=[], known_seen={}, excluded={},
                          inconclusive={"shard-crashed": 1}, failures=[], extra={"exceptions": [traceback.format_exc()[-3000:]]})))


def _run_shards(args):
    """one process per shard; a shard process that dies without delivering a result (killed, out of memory) is reported as
    inconclusive instead of hanging the run (multiprocessing.Pool waits for ever in that case)"""
    import queue
    mp = multiprocessing.get_context("fork")
    q = mp.Queue()
    procs = {a[4]: mp.Process(target=_shard_proc, args=(a, q)) for a in args}
    for p in procs.values():
        p.start()
    results, pending, dead_since = {}, set(procs), {}
    while pending:
        try:
            shard, res = q.get(timeout=1.0)
            results[shard] = res
            pending.discard(shard)
            continue
        except queue.Empty:
            pass
        now = time.time()
        for sh in list(pending):
            if not procs[sh].is_alive():
                dead_since.setdefault(sh, now)
                if now - dead_since[sh] > 5:          # its result, if any, would have arrived by now
                    results[sh] = dict(evaluations=0, nontrivial=[], classes={}, samples=[], known_seen={}, excluded={},
                                       inconclusive={"shard-died:exit=%s" % procs[sh].exitcode: 1}, failures=[], extra={})
                    pending.discard(sh)
    for p in procs.values():
        p.join(timeout=10)
    return [results[a[4]] for a in args]


def load_known(prop):
    p = os.path.join(VERIF, "known_findings.json")
    if not os.path.exists(p):
        return []
    return [k for k in json.load(open(p))["findings"] if k["property"] == prop]


def write_replay(prop, failure):
    d = os.path.join(VERIF, "replays", prop) if not os.environ.get("VERIF_NO_EVIDENCE") else os.path.join(WORK, "mutant-replays", prop)
    os.makedirs(d, exist_ok=True)
    name = re.sub(r"[^A-Za-z0-9_.-]+", "_", failure["sig"])[:60] + "-" + khash(failure["case"])[:8] + ".json"
    p = os.path.join(d, name)
    with open(p, "w") as f:
        json.dump(dict(property=prop, sig=failure["sig"], case=failure["case"], detail=failure.get("detail", "")[:4000]), f, indent=1)
    return p


def write_evidence(prop, mod, tier, seed, merged, wall, violations):
    if os.environ.get("VERIF_NO_EVIDENCE"):
        return
    cov = dict(evaluations=merged["evaluations"], distinct_nontrivial=len(merged["nontrivial"]), rule=mod.RULE,
               samples=merged["samples"][:6] or ["(no non-trivial case was produced)"], classes=merged["classes"],
               known_findings_seen=merged["known_seen"], excluded_by_construction=merged["excluded"],
               inconclusive=merged["inconclusive"], shards=merged["shards"])
    cov.update(merged.get("coverage_extra", {}))
    ev = dict(property_id=prop, tier=tier, seed=seed, level=mod.LEVEL, coverage=cov,
              assumptions=getattr(mod, "ASSUMPTIONS", []), wall_s=round(wall, 2), violations=violations)
    os.makedirs(os.path.join(VERIF, "evidence"), exist_ok=True)
    with open(os.path.join(VERIF, "evidence", prop + ".json"), "w") as f:
        json.dump(ev, f, indent=1, default=repr)


def main(argv):
    import argparse
    ap = argparse.ArgumentParser()
    ap.add_argument("prop")
    ap.add_argument("--tier", default=os.environ.get("VERIF_TIER", "quick"))
    ap.add_argument("--replay")
    ap.add_argument("--shards", type=int, default=NSHARDS)
    a = ap.parse_args(argv)
    prop, tier = a.prop, a.tier
    if tier not in ("quick", "thorough"):
        tier = "quick"
    seed = int(os.environ.get("VERIF_SEED", "0") or 0)
    modname = "pbt.props." + prop.lower()
    mod = importlib.import_module(modname)
    t0 = time.time()
    for fl, targets in getattr(mod, "BUILDS", [("asan", ["lpcvm"])]):
        build.build(fl, targets)
    known = load_known(prop)

    if a.replay:
        ctx = Ctx(prop, tier, seed, 0, 1, known)
        case = json.load(open(a.replay))
        try:
            f = mod.replay(ctx, case["case"])
        finally:
            shutil.rmtree(os.path.dirname(ctx.rundir), ignore_errors=True)
        if f:
            print("replay fails: sig=%s\n%s" % (f[0], f[1][:3000]))
            print("VIOLATION property=%s replay=%s" % (prop, a.replay))
            return 1
        print("replay passes")
        return 0

    violations = []
    # 1. replay tier: committed replays (known findings print KNOWN-FINDING; regressions of fixed ones are violations)
    ctx0 = Ctx(prop, tier, seed, 99, 1, known)
    replay_dir = os.path.join(VERIF, "replays", prop)
    n_replayed = 0
    known_printed = set()
    try:
        for name in sorted(os.listdir(replay_dir)) if os.path.isdir(replay_dir) else []:
            if not name.endswith(".json"):
                continue
            path = os.path.join(replay_dir, name)
            case = json.load(open(path))
            f = None
            for attempt in range(3):     # a replay counts as failing only if it fails every time
                f = mod.replay(ctx0, case["case"])
                if not f:
                    break
            n_replayed += 1
            if f:
                k = ctx0.is_known(f[0])
                if k:
                    if k["id"] not in known_printed:
                        print("KNOWN-FINDING: property=%s %s [%s]" % (prop, k["what"], k["id"]))
                        known_printed.add(k["id"])
                else:
                    violations.append((f[0], path))
    finally:
        shutil.rmtree(os.path.dirname(ctx0.rundir), ignore_errors=True)

    # 2. generated search, sharded
    nshards = a.shards
    args = [(modname, prop, tier, seed, s, nshards, known) for s in range(nshards)]
    if nshards == 1:
        results = [_shard_entry(args[0])]
    else:
        results = _run_shards(args)
    merged = dict(evaluations=0, nontrivial=set(), classes=Counter(), samples=[], known_seen=Counter(), excluded=Counter(),
                  inconclusive=Counter(), shards=nshards, coverage_extra={})
    failures = []
    for r in results:
        merged["evaluations"] += r["evaluations"]
        merged["nontrivial"].update(r["nontrivial"])
        merged["classes"].update(r["classes"])
        merged["known_seen"].update(r["known_seen"])
        merged["excluded"].update(r["excluded"])
        merged["inconclusive"].update(r["inconclusive"])
        if len(merged["samples"]) < 6:
            merged["samples"].extend(r["samples"][:2])
        failures.extend(r["failures"])
        for k, v in r.get("extra", {}).items():
            if k == "exceptions":
                merged["coverage_extra"].setdefault("exceptions", []).extend(v[:2])
            elif isinstance(v, (int, float)):
                merged["coverage_extra"][k] = merged["coverage_extra"].get(k, 0) + v
            elif isinstance(v, list) and v and isinstance(v[0], dict):
                merged["coverage_extra"].setdefault(k, []).extend(v)
            elif isinstance(v, list):
                merged["coverage_extra"].setdefault(k, [])
                merged["coverage_extra"][k] = sorted(set(merged["coverage_extra"][k]) | set(v))[:400]
    merged["evaluations"] += n_replayed
    merged["classes"] = dict(merged["classes"]); merged["known_seen"] = dict(merged["known_seen"])
    merged["excluded"] = dict(merged["excluded"]); merged["inconclusive"] = dict(merged["inconclusive"])
    merged["coverage_extra"]["replays_run"] = n_replayed

    # 3. confirm each distinct new failure 3x in fresh children before calling it a violation
    seen_sig = set()
    ctx1 = Ctx(prop, tier, seed, 98, 1, known)
    try:
        for f in failures:
            if f["sig"] in seen_sig:
                continue
            seen_sig.add(f["sig"])
            ok = passed = 0
            for attempt in range(9):
                inc0 = sum(ctx1.inconclusive.values())
                rf = mod.replay(ctx1, f["case"])
                if rf and not ctx1.is_known(rf[0]):
                    ok += 1
                elif sum(ctx1.inconclusive.values()) == inc0:
                    passed += 1           # a conclusive attempt that did not fail
                # (an attempt that ended inconclusive - a timeout under load - counts neither way and is repeated)
                if ok == 3 or passed:
                    break
            if ok == 3 and not passed:
                path = write_replay(prop, f)
                violations.append((f["sig"], path))
                print("failure: sig=%s\n%s" % (f["sig"], f.get("detail", "")[:2500]))
            else:
                merged["inconclusive"]["flaky-failure:" + f["sig"][:60]] = merged["inconclusive"].get("flaky-failure:" + f["sig"][:60], 0) + 1
    finally:
        shutil.rmtree(os.path.dirname(ctx1.rundir), ignore_errors=True)

    for kid, n in merged["known_seen"].items():
        if kid not in known_printed:
            k = [x for x in known if x.get("id") == kid][0]
            print("KNOWN-FINDING: property=%s %s [%s]" % (prop, k["what"], kid))
            known_printed.add(kid)

    wall = time.time() - t0
    write_evidence(prop, mod, tier, seed, merged, wall, len(violations))
    print("%s tier=%s seed=%d evaluations=%d distinct_nontrivial=%d wall=%.1fs inconclusive=%s" % (
        prop, tier, seed, merged["evaluations"], len(merged["nontrivial"]), wall, merged["inconclusive"]))
    if merged["coverage_extra"].get("exceptions"):
        print("HARNESS-EXCEPTION (inconclusive, not a violation):\n" + merged["coverage_extra"]["exceptions"][0])
    for sig, path in violations:
        print("VIOLATION property=%s replay=%s" % (prop, path))
    if violations:
        return 1
    floor = getattr(mod, "NONTRIVIAL_FLOOR", {}).get(tier, 2)
    if len(merged["nontrivial"]) < floor:
        print("INCONCLUSIVE: only %d distinct non-trivial cases (floor %d) - the check did not explore enough" % (len(merged["nontrivial"]), floor))
        return 2
    return 0


if __name__ == "__main__":
    sys.exit(main(sys.argv[1:]))
