"""Builds /repo's *current working tree* plus the harness targets, out of tree.

Flavours live under $VERIF_WORK/build/<flavour>; ninja rebuilds incrementally under
an flock so concurrent checks share one build. Nothing is written inside /repo.
"""
import fcntl, hashlib, os, subprocess, sys, time

REPO = os.environ.get("VERIF_REPO", "/repo")
VERIF = os.path.dirname(os.path.dirname(os.path.abspath(__file__)))
WORK = os.environ.get("VERIF_WORK", "/var/tmp/neolith-verif")

UBSAN = "-fsanitize=bounds,null,object-size,nonnull-attribute,returns-nonnull-attribute,vla-bound -fno-sanitize-recover=all"
COMMON = "-DNEOLITH_VERIF -g -O1 -fno-omit-frame-pointer -w"
FLAVOURS = {
    "asan": dict(cc="gcc", cxx="g++", flags=f"{COMMON} -fsanitize=address {UBSAN}", ld="-fsanitize=address -fsanitize=bounds,null,object-size,vla-bound"),
    "tsan": dict(cc="gcc", cxx="g++", flags=f"{COMMON} -fsanitize=thread", ld="-fsanitize=thread"),
    # no UBSan here: the repository's own build tool (edit_source) indexes buf[-1] and would abort the build under clang's bounds check
    "fuzz": dict(cc="clang", cxx="clang++", flags=f"{COMMON} -fsanitize=fuzzer-no-link,address", ld="-fsanitize=address"),
}


def tree_hash():
    """content hash of /repo's source files (tracked + untracked, excluding build dirs)"""
    out = subprocess.run(["git", "-C", REPO, "ls-files", "-co", "--exclude-standard"], capture_output=True, text=True).stdout.split("\n")
    h = hashlib.sha256()
    for f in sorted(out):
        if not f or f.startswith("_build/") or f.startswith("out/"):
            continue
        p = os.path.join(REPO, f)
        try:
            st = os.stat(p)
        except OSError:
            continue
        h.update(f.encode()); h.update(str((st.st_size, st.st_mtime_ns)).encode())
    return h.hexdigest()[:16]


def build(flavour, targets, quiet=True):
    fl = FLAVOURS[flavour]
    bdir = os.path.join(WORK, "build", flavour)
    os.makedirs(bdir, exist_ok=True)
    lock = open(os.path.join(WORK, "build", flavour + ".lock"), "w")
    fcntl.flock(lock, fcntl.LOCK_EX)
    try:
        env = dict(os.environ)
        env["ASAN_OPTIONS"] = "detect_leaks=0"
        env["UBSAN_OPTIONS"] = "halt_on_error=0"
        stamp = os.path.join(bdir, ".configured")
        # the harness targets are chosen at configure time from the sources that exist: a new source file means a new configuration
        cfg_key = fl["flags"] + "|" + VERIF + "|" + ",".join(sorted(f for f in os.listdir(os.path.join(VERIF, "harness")) if f.endswith((".cpp", ".c"))))
        if not os.path.exists(os.path.join(bdir, "build.ninja")) or not os.path.exists(stamp) or open(stamp).read() != cfg_key:
            cmd = ["cmake", "-G", "Ninja", "-S", REPO, "-B", bdir, "-DBUILD_TESTING=OFF", "-DCMAKE_BUILD_TYPE=None",
                   f"-DCMAKE_C_COMPILER={fl['cc']}", f"-DCMAKE_CXX_COMPILER={fl['cxx']}",
                   f"-DCMAKE_C_FLAGS={fl['flags']}", f"-DCMAKE_CXX_FLAGS={fl['flags']}",
                   f"-DCMAKE_EXE_LINKER_FLAGS={fl['ld']}",
                   f"-DCMAKE_PROJECT_TOP_LEVEL_INCLUDES={VERIF}/harness/cmake/inject.cmake",
                   f"-DVERIF_HARNESS_DIR={VERIF}/harness", f"-DVERIF_FLAVOUR={flavour}"]
            r = subprocess.run(cmd, capture_output=True, text=True, env=env)
            if r.returncode != 0:
                sys.stderr.write(r.stdout[-4000:] + r.stderr[-4000:])
                raise SystemExit("BUILD-ERROR: cmake configure failed (flavour %s)" % flavour)
            open(stamp, "w").write(cfg_key)
        t0 = time.time()
        r = subprocess.run(["ninja", "-C", bdir] + list(targets), capture_output=True, text=True, env=env)
        if r.returncode != 0:
            sys.stderr.write(r.stdout[-8000:] + r.stderr[-4000:])
            raise SystemExit("BUILD-ERROR: ninja failed (flavour %s)" % flavour)
        if not quiet:
            print("built %s %s in %.1fs" % (flavour, targets, time.time() - t0))
    finally:
        fcntl.flock(lock, fcntl.LOCK_UN)
        lock.close()
    return bdir


def binary(flavour, name):
    bdir = build(flavour, [name])
    return os.path.join(bdir, name)


if __name__ == "__main__":
    fl = sys.argv[1] if len(sys.argv) > 1 else "asan"
    tg = sys.argv[2:] or ["lpcvm"]
    build(fl, tg, quiet=False)
