#!/bin/sh
# MANIFEST.setup_cmd: offline; verifies the toolchain and pre-builds the harness flavours from /repo's working tree.
cd "$(dirname "$0")" || exit 2
command -v python3-vt >/dev/null || { echo "python3-vt missing"; exit 1; }
python3-vt -c 'import hypothesis' || exit 1
mkdir -p "${VERIF_WORK:-/var/tmp/neolith-verif}"
python3-vt -c 'from pbt import build; build.build("asan", ["lpcvm"], quiet=False)' || exit 1
echo "setup ok"
