#!/bin/sh
# hooks.baseline_off_cmd: builds /repo with the NEOLITH_VERIF guard OFF exactly like the pinned baseline and runs its test suite.
set -e
B="${VERIF_WORK:-/var/tmp/neolith-verif}/build/plain"
mkdir -p "$B"
cmake -G Ninja -S /repo -B "$B" -DCMAKE_BUILD_TYPE=RelWithDebInfo -DCMAKE_C_FLAGS=-Wno-error -DCMAKE_CXX_FLAGS=-Wno-error >/dev/null
cmake --build "$B" >/dev/null
ctest --test-dir "$B" -j8 --timeout 900 --output-junit "$B/junit.xml"
