// verification user object: logs everything it is handed
mixed *ulog = ({ });
mapping faults = ([ ]);
int cycle_tag;

mixed *verif_get_log() { return ulog; }
void verif_clear_log() { ulog = ({ }); }
void set_fault(string where, mixed v) { faults[where] = v; }
private void maybe_fault(string where) {
  mixed f = faults[where];
  if (!f) return;
  if (intp(f) && f > 0) { faults[where] = f - 1; }
  error("fault in " + where + "\n");
}

void create() { seteuid(getuid()); }

void logon() {
  ulog += ({ ({ "logon" }) });
  maybe_fault("logon");
  enable_commands();
  add_action("cmd_any", "", 1);
}

int cmd_any(string arg) {
  ulog += ({ ({ "cmd", query_verb(), arg }) });
  maybe_fault("cmd");
  "/script"->on_command(this_object(), query_verb(), arg);
  return 1;
}

mixed process_input(string s) {
  ulog += ({ ({ "input", s }) });
  maybe_fault("process_input");
  return 0;
}

void net_dead() { ulog += ({ ({ "net_dead" }) }); maybe_fault("net_dead"); }
void write_prompt() { maybe_fault("write_prompt"); }
void set_terminal_type(string t) { ulog += ({ ({ "ttype", t }) }); maybe_fault("terminal_type"); }
void set_window_size(int w, int h) { ulog += ({ ({ "naws", w, h }) }); maybe_fault("window_size"); }
void catch_tell(string s) { }
