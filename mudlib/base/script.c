// script daemon: "when hook H fires on object O do action A" entries (DESIGN 2.6)
mapping hooks = ([ ]);
mixed *slog = ({ });
void set_hook(string key, mixed action) { hooks[key] = action; }
void clear() { hooks = ([ ]); slog = ({ }); }
mixed *verif_get_log() { return slog; }
void on_command(object who, string verb, string arg) {
  mixed a = hooks["cmd:" + verb];
  if (functionp(a)) evaluate(a, who, verb, arg);
}
