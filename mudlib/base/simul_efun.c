// verification simul_efun object (deliberately tiny)
int verif_simul_marker() { return 4711; }
