// verification master object (template). Policy knobs are set with set_policy().
// Every security apply is logged as ({ apply, args... }) with objects by name.

mapping policy = ([ "read": "allow", "write": "allow", "seteuid": "allow",
                    "handler": "log", "connect": "/user", "log": 0 ]);
mixed *alog = ({ });
string last_error = "";
mixed *errors = ({ });

void set_policy(string k, mixed v) { policy[k] = v; }
mixed query_policy(string k) { return policy[k]; }
mixed *verif_get_log() { return alog; }
void verif_clear_log() { alog = ({ }); }
string verif_take_error() { string e = last_error; last_error = ""; return e; }
mixed *verif_errors() { mixed *e = errors; errors = ({ }); return e; }

private string obname(mixed ob) { return objectp(ob) ? file_name(ob) : "0"; }
private void note(mixed *entry) { if (policy["log"]) alog += ({ entry }); }

object connect(int port) {
  object ob;
  note(({ "connect", port }));
  if (policy["connect_error"]) error("connect failed on purpose\n");
  ob = new(policy["connect"]);
  return ob;
}

string creator_file(string file) {
  string *parts;
  note(({ "creator_file", file }));
  if (policy["creator"]) return evaluate(policy["creator"], file);
  parts = explode(file, "/") - ({ "" });
  if (sizeof(parts) < 2) return "Root";
  if (parts[0] == "adm") return "Root";
  if (parts[0] == "std") return "Backbone";
  if (parts[0] == "u" && sizeof(parts) > 2) return parts[1];
  if (parts[0] == "open") return "Open";
  if (parts[0] == "nouid") return 0;
  return "Root";
}

string get_root_uid() { return "Root"; }
string get_bb_uid() { return "Backbone"; }

int valid_seteuid(object ob, string newuid) {
  note(({ "valid_seteuid", obname(ob), newuid }));
  switch (policy["seteuid"]) {
  case "allow": return 1;
  case "deny": return 0;
  case "own": return newuid == getuid(ob);
  case "root": return getuid(ob) == "Root";
  }
  return 0;
}

private int in_acl;
private mixed path_policy(string which, string path) {
  mixed p = policy[which];
  if (p == "allow") return 1;
  if (p == "acl") {
    // a master that keeps its rules in a file: it reads the list (through the same file efuns) while it is being asked
    string acl;
    if (in_acl) return 1;
    in_acl = 1; acl = read_file("/acl.txt"); in_acl = 0;
    return stringp(acl) && strsrch(acl, "everything") != -1;
  }
  if (p == "deny") return 0;
  if (p == "scratch") return (strsrch(path, "/scratch/") == 0 || strsrch(path, "scratch/") == 0) && strsrch(path, "..") == -1;
  if (stringp(p) && p[0..7] == "rewrite:") return p[8..];
  if (stringp(p) && p[0..6] == "prefix:") return strsrch(path, p[7..]) == 0;
  return 0;
}

mixed valid_read(string path, mixed ob, string func) {
  note(({ "valid_read", path, obname(ob), func }));
  return path_policy("read", path);
}

mixed valid_write(string path, mixed ob, string func) {
  note(({ "valid_write", path, obname(ob), func }));
  return path_policy("write", path);
}

mixed error_handler(mapping m, int caught) {
  if (policy["handler"] == "fail") error("error_handler failed on purpose\n");
  if (!caught) last_error = m["error"];
  if (policy["handler"] == "trace")
    errors += ({ ([ "error": m["error"], "file": m["file"], "line": m["line"], "program": m["program"],
                    "object": obname(m["object"]), "caught": caught,
                    "trace": map(m["trace"], (: ([ "function": $1["function"], "program": $1["program"],
                        "object": objectp($1["object"]) ? file_name($1["object"]) : "0",
                        "file": $1["file"], "line": $1["line"] ]) :)) ]) });
  else if (sizeof(errors) < 64)
    errors += ({ ([ "error": m["error"], "caught": caught ]) });
  return 0;
}

int valid_override(string file, string name) { return 1; }
int valid_object(object ob) { return 1; }
int valid_bind(object a, object b, object c) { return 1; }
int valid_save_binary(string file) { return policy["save_binary"] ? 1 : 0; }
int valid_shadow(object ob) { return 1; }
int valid_socket(object ob, string fn, mixed *info) { return 1; }
int valid_hide(object ob) { return 1; }
int valid_link(string a, string b) { return 1; }
string get_save_file_name(string f) { return f + ".edsave"; }
string make_path_absolute(string f) { return f; }
string *compile_errors = ({ });
void log_error(string file, string msg) { if (sizeof(compile_errors) < 20) compile_errors += ({ msg }); }
string *verif_take_compile_errors() { string *e = compile_errors; compile_errors = ({ }); return e; }
void crash(string msg, object cg, object co) { }
string *epilog(int x) { return ({ }); }
void preload(string f) { }
