/* link-time interposers shared between wraps.c and lpcvm (see DESIGN.md 2.4) */
#pragma once
#include <stddef.h>
#ifdef __cplusplus
extern "C" {
#endif
extern volatile int verif_harness_exiting;   /* set by the harness before its own exit */
void verif_note_termination (const char *how, int code); /* provided by lpcvm.cpp */

/* virtual clock */
void verif_clock_set (long long t);
long long verif_clock_get (void);
void verif_clock_advance (long long dt);

/* heart-beat timer captured from platform_timer_start */
typedef void (*verif_timer_cb_t) (void);
verif_timer_cb_t verif_timer_callback (void);

/* backend stepping: lpcvm installs this; called at the top of every async_runtime_wait */
extern void (*verif_wait_hook) (void);
extern long long verif_cycles;

/* scripted send() results */
void verif_sendplan_clear (void);
void verif_sendplan_add (int kind, long n);  /* kind: 'F' full, 'P' partial n, 'W' EWOULDBLOCK, 'I' EINTR, 'E' EPIPE */
int verif_sendlog_count (void);
void verif_sendlog_get (int i, int *fd, long *asked, long *ret, int *err);
void verif_sendlog_clear (void);

/* file access log */
void verif_filelog_enable (int on);
int verif_filelog_count (void);
const char *verif_filelog_func (int i);
const char *verif_filelog_path (int i);
void verif_filelog_clear (void);
#ifdef __cplusplus
}
#endif
