// asynccheck - executes op scripts against lib/async and lib/port (C19). One case per input line; one JSON line per case.
//
//   EL <ops...>         event loop, owned schedule, ops separated by spaces:
//        P:<key>:<data>      async_runtime_post_completion from this thread
//        W                   async_runtime_wakeup
//        T:<k>:<key>:<data>:<n>  k threads released together by a barrier, thread j posts n completions (key+j, data+i); joined before the next op
//        R                   one async_runtime_wait(timeout 0, max 64)
//        B:<ms>              a thread posts (key 9, data 9) after <ms> ms while this thread is blocked in wait(timeout 2000): returns promptly?
//     the case ends with waits until two in a row return nothing
//   Q1 <cap> <msgsize> <flags> <ops...>   queue, one thread: E:<len>:<tag> D:<bufsize> X(clear) S(stats) F(is_full/is_empty)
//   QT <cap> <flags> <producers> <msgs> <seed>   queue, producers + one consumer, seeded yields
//   WK <kind> <delay_us> <stop:0|1> <join_ms> <seed>   worker life cycle; kind: 0 loops on should_stop, 1 waits on the stop event, 2 returns at once, 4 sleeps on the stop event between should_stop polls, 5 waits on the event and then asks should_stop,
//                                                      3 ignores stop for 150 ms
//   TM <interval_us> <run_ms> <restarts>   timer start / stop / cleanup; callbacks are time-stamped
#include <config.h>
#include <sys/time.h>
#include <cstdio>
#include <cstdlib>
#include <cstring>
#include <cstdint>
#include <string>
#include <vector>
#include <sstream>
#include <atomic>
#include <thread>
#include <chrono>
#include <unistd.h>
#include <signal.h>
#include <pthread.h>

extern "C" {
#include "async/async_runtime.h"
#include "async/async_queue.h"
#include "async/async_worker.h"
#include "port/timer.h"
#include "port/sync.h"
}

static long long now_us () {
  return std::chrono::duration_cast<std::chrono::microseconds> (std::chrono::steady_clock::now ().time_since_epoch ()).count ();
}

static int cur_case = 0;
static void on_alarm (int) {
  char b[96];
  int n = snprintf (b, sizeof b, "{\"case\":%d,\"hang\":1}\n", cur_case);
  if (write (1, b, n) < 0) {}
  _exit (3);
}

static std::vector<std::string> split (const std::string &s, char c) {
  std::vector<std::string> v; std::string cur; std::istringstream is (s);
  while (std::getline (is, cur, c)) v.push_back (cur);
  return v;
}

// ------------------------------------------------------------------ event loop
static void emit_events (std::string &out, io_event_t *ev, int n) {
  out += "[";
  for (int i = 0; i < n; i++) {
    char b[128];
    snprintf (b, sizeof b, "%s[%llu,%llu,%d]", i ? "," : "", (unsigned long long) ev[i].completion_key, (unsigned long long) ev[i].bytes_transferred, (int) ev[i].fd);
    out += b;
  }
  out += "]";
}

static void run_el (std::vector<std::string> &tok, std::string &out) {
  async_runtime_t *rt = async_runtime_init ();
  if (!rt) { out += "\"error\":\"init\""; return; }
  out += "\"waits\":[";
  bool first = true;
  io_event_t ev[64];
  struct timeval zero = { 0, 0 };
  for (size_t i = 1; i < tok.size (); i++) {
    std::vector<std::string> f = split (tok[i], ':');
    if (f[0] == "P") async_runtime_post_completion (rt, (uintptr_t) strtoull (f[1].c_str (), 0, 10), (uintptr_t) strtoull (f[2].c_str (), 0, 10));
    else if (f[0] == "W") async_runtime_wakeup (rt);
    else if (f[0] == "T") {
      int k = atoi (f[1].c_str ()); unsigned long long key = strtoull (f[2].c_str (), 0, 10), data = strtoull (f[3].c_str (), 0, 10); int n = atoi (f[4].c_str ());
      pthread_barrier_t bar; pthread_barrier_init (&bar, 0, k);
      std::vector<std::thread> th;
      for (int j = 0; j < k; j++)
        th.emplace_back ([&, j] () { pthread_barrier_wait (&bar); for (int m = 0; m < n; m++) async_runtime_post_completion (rt, (uintptr_t) (key + j), (uintptr_t) (data + m)); });
      for (auto &t : th) t.join ();
      pthread_barrier_destroy (&bar);
    }
    else if (f[0] == "R") {
      int n = async_runtime_wait (rt, ev, 64, &zero);
      if (!first) out += ","; first = false;
      emit_events (out, ev, n > 0 ? n : 0);
    }
    else if (f[0] == "B") {
      int ms = atoi (f[1].c_str ());
      std::thread th ([&] () { usleep (ms * 1000); async_runtime_post_completion (rt, 9, 9); });
      struct timeval tv = { 2, 0 };
      long long t0 = now_us ();
      int n = async_runtime_wait (rt, ev, 64, &tv);
      long long dt = now_us () - t0;
      th.join ();
      if (!first) out += ","; first = false;
      char b[64]; snprintf (b, sizeof b, "{\"blocked_us\":%lld,\"ev\":", dt); out += b;
      emit_events (out, ev, n > 0 ? n : 0); out += "}";
    }
  }
  int empty = 0;
  for (int guard = 0; guard < 1000 && empty < 2; guard++) {
    int n = async_runtime_wait (rt, ev, 64, &zero);
    if (n <= 0) { empty++; continue; }
    empty = 0;
    if (!first) out += ","; first = false;
    emit_events (out, ev, n);
  }
  out += "]";
  async_runtime_deinit (rt);
}

// ------------------------------------------------------------------ queue, one thread
static void run_q1 (std::vector<std::string> &tok, std::string &out) {
  size_t cap = strtoul (tok[1].c_str (), 0, 10), msz = strtoul (tok[2].c_str (), 0, 10); int flags = atoi (tok[3].c_str ());
  async_queue_t *q = async_queue_create (cap, msz, (async_queue_flags_t) flags);
  if (!q) { out += "\"created\":0"; return; }
  out += "\"created\":1,\"ops\":[";
  std::vector<unsigned char> buf (70000);
  for (size_t i = 4; i < tok.size (); i++) {
    std::vector<std::string> f = split (tok[i], ':');
    char b[200];
    if (i > 4) out += ",";
    if (f[0] == "E") {
      size_t len = strtoul (f[1].c_str (), 0, 10); int tag = atoi (f[2].c_str ());
      std::vector<unsigned char> m (len ? len : 1);
      for (size_t k = 0; k < len; k++) m[k] = (unsigned char) (tag + k);
      bool ok = async_queue_enqueue (q, m.data (), len);
      snprintf (b, sizeof b, "{\"e\":%d}", ok ? 1 : 0);
    } else if (f[0] == "D") {
      size_t bs = strtoul (f[1].c_str (), 0, 10), got = 0;
      memset (buf.data (), 0xEE, buf.size ());
      bool ok = async_queue_dequeue (q, buf.data (), bs, &got);
      int good = 1;
      if (ok) for (size_t k = 1; k < got; k++) if (buf[k] != (unsigned char) (buf[0] + k)) good = 0;
      // bytes behind the caller's buffer must be untouched
      for (size_t k = bs; k < bs + 16 && k < buf.size (); k++) if (buf[k] != 0xEE) good = -1;
      snprintf (b, sizeof b, "{\"d\":%d,\"len\":%zu,\"tag\":%d,\"good\":%d}", ok ? 1 : 0, ok ? got : 0, ok && got ? buf[0] : -1, good);
    } else if (f[0] == "X") { async_queue_clear (q); snprintf (b, sizeof b, "{\"x\":1}"); }
    else if (f[0] == "F") snprintf (b, sizeof b, "{\"full\":%d,\"empty\":%d}", async_queue_is_full (q) ? 1 : 0, async_queue_is_empty (q) ? 1 : 0);
    else {
      async_queue_stats_t st; async_queue_get_stats (q, &st);
      snprintf (b, sizeof b, "{\"cap\":%zu,\"cur\":%zu,\"enq\":%llu,\"deq\":%llu,\"drop\":%llu}", st.capacity, st.current_size,
                (unsigned long long) st.enqueue_count, (unsigned long long) st.dequeue_count, (unsigned long long) st.dropped_count);
    }
    out += b;
  }
  out += "]";
  async_queue_destroy (q);
}

// ------------------------------------------------------------------ queue, producers and one consumer
static void run_qt (std::vector<std::string> &tok, std::string &out) {
  size_t cap = strtoul (tok[1].c_str (), 0, 10); int flags = atoi (tok[2].c_str ()); int np = atoi (tok[3].c_str ()); int nm = atoi (tok[4].c_str ());
  unsigned seed = (unsigned) strtoul (tok[5].c_str (), 0, 10);
  async_queue_t *q = async_queue_create (cap, 16, (async_queue_flags_t) flags);
  if (!q) { out += "\"created\":0"; return; }
  std::atomic<int> done (0);
  std::vector<std::vector<int> > accepted (np);
  std::vector<std::thread> th;
  for (int p = 0; p < np; p++)
    th.emplace_back ([&, p] () {
      unsigned s = seed * 977 + p * 131 + 7;
      for (int m = 0; m < nm; m++) {
        int msg[2] = { p, m };
        s = s * 1103515245 + 12345;
        if ((s >> 16) % 4 == 0) sched_yield ();
        if ((s >> 20) % 31 == 0) usleep ((s >> 8) % 300);
        if (async_queue_enqueue (q, msg, sizeof msg)) accepted[p].push_back (m);
      }
      done++;
    });
  std::vector<std::pair<int, int> > got;
  unsigned s = seed * 31 + 1;
  int idle = 0;
  while (true) {
    int msg[2]; size_t sz = 0;
    s = s * 1103515245 + 12345;
    if ((s >> 16) % 5 == 0) sched_yield ();
    if ((s >> 20) % 41 == 0) usleep ((s >> 8) % 400);
    if (async_queue_dequeue (q, msg, sizeof msg, &sz)) { got.push_back (std::make_pair (msg[0], msg[1])); idle = 0; continue; }
    if (done.load () == np) { if (++idle > 2) break; }
  }
  for (auto &t : th) t.join ();
  async_queue_stats_t st; async_queue_get_stats (q, &st);
  char b[200];
  snprintf (b, sizeof b, "\"created\":1,\"enq\":%llu,\"deq\":%llu,\"drop\":%llu,\"cur\":%zu,\"accepted\":[", (unsigned long long) st.enqueue_count,
            (unsigned long long) st.dequeue_count, (unsigned long long) st.dropped_count, st.current_size);
  out += b;
  for (int p = 0; p < np; p++) { snprintf (b, sizeof b, "%s%zu", p ? "," : "", accepted[p].size ()); out += b; }
  out += "],\"got\":[";
  for (size_t i = 0; i < got.size (); i++) { snprintf (b, sizeof b, "%s[%d,%d]", i ? "," : "", got[i].first, got[i].second); out += b; }
  out += "]";
  async_queue_destroy (q);
}

// ------------------------------------------------------------------ queue, blocked writers (deterministic: no luck needed)
//   QB <cap> <producers> <mode>   the queue is filled, <producers> threads block in enqueue; then mode 0: the consumer drains;
//   mode 1: clear(), then the consumer drains; mode 2: clear(), one enqueue by the consumer, then it drains. Deadline 3 s.
static void run_qb (std::vector<std::string> &tok, std::string &out) {
  size_t cap = strtoul (tok[1].c_str (), 0, 10); int np = atoi (tok[2].c_str ()); int mode = atoi (tok[3].c_str ());
  async_queue_t *q = async_queue_create (cap, 16, ASYNC_QUEUE_BLOCK_WRITER);
  if (!q) { out += "\"created\":0"; return; }
  for (size_t i = 0; i < cap; i++) { int msg[2] = { -1, (int) i }; async_queue_enqueue (q, msg, sizeof msg); }
  std::atomic<int> finished (0);
  std::vector<std::thread> th;
  for (int p = 0; p < np; p++)
    th.emplace_back ([&, p] () { int msg[2] = { p, 0 }; async_queue_enqueue (q, msg, sizeof msg); finished++; });
  usleep (30000);                       // all producers are blocked now (the queue is full)
  int blocked_before = np - finished.load ();
  int expect = np + (int) cap;
  if (mode >= 1) { async_queue_clear (q); expect = np; }
  if (mode == 2) {
    // one more writer arriving after the clear (its own thread: the consumer itself must never block in enqueue)
    th.emplace_back ([&] () { int msg[2] = { -2, 0 }; async_queue_enqueue (q, msg, sizeof msg); finished++; });
    np++; expect++;
  }
  int got = 0;
  long long deadline = now_us () + 3000000;
  while (now_us () < deadline && (got < expect || finished.load () < np)) {
    int msg[2]; size_t sz;
    if (async_queue_dequeue (q, msg, sizeof msg, &sz)) got++;
    else usleep (200);
  }
  int fin = finished.load ();
  char b[200];
  snprintf (b, sizeof b, "\"created\":1,\"blocked_before\":%d,\"finished\":%d,\"got\":%d,\"expect\":%d", blocked_before, fin, got, expect);
  out += b;
  if (fin < np) {
    // release whoever is still blocked so that the threads can be joined: drain and signal through dequeues of fresh messages
    for (int k = 0; k < 4 * np + 4 && finished.load () < np; k++) {
      int msg[2] = { -3, k }; size_t sz;
      async_queue_clear (q);
      for (size_t i = 0; i < cap; i++) async_queue_enqueue (q, msg, sizeof msg);     // full again (never blocks: we are the only free thread)
      async_queue_dequeue (q, msg, sizeof msg, &sz);                                  // a dequeue from a full queue signals in every version
      usleep (2000);
    }
  }
  if (finished.load () < np) { for (auto &t : th) t.detach (); return; }
  for (auto &t : th) t.join ();
  async_queue_destroy (q);
}

// ------------------------------------------------------------------ worker life cycle
struct wk_ctx { int kind; std::atomic<long long> last_run_us; std::atomic<int> iterations; };
static void *wk_proc (void *p) {
  wk_ctx *c = (wk_ctx *) p;
  async_worker_t *me = async_worker_current ();
  long long t0 = now_us ();
  if (c->kind == 2) { c->last_run_us = now_us (); return 0; }
  while (true) {
    c->iterations++;
    c->last_run_us = now_us ();
    if (c->kind == 1) { if (platform_event_wait (async_worker_get_stop_event (me), 50)) break; }
    else if (c->kind == 4) { if (async_worker_should_stop (me)) break; platform_event_wait (async_worker_get_stop_event (me), 30); }   // sleeps on the stop event, decides by should_stop
    else if (c->kind == 5) { if (platform_event_wait (async_worker_get_stop_event (me), 20) && async_worker_should_stop (me)) break; }  // woken early, then asks again
    else if (c->kind == 3) { if (now_us () - t0 > 150000 && async_worker_should_stop (me)) break; usleep (500); }
    else { if (async_worker_should_stop (me)) break; usleep (200); }
  }
  c->last_run_us = now_us ();
  return 0;
}

static void run_wk (std::vector<std::string> &tok, std::string &out) {
  wk_ctx c; c.kind = atoi (tok[1].c_str ()); c.last_run_us = 0; c.iterations = 0;
  long delay = atol (tok[2].c_str ()); int stop = atoi (tok[3].c_str ()); int join_ms = atoi (tok[4].c_str ());
  async_worker_t *w = async_worker_create (wk_proc, &c, 0);
  if (!w) { out += "\"created\":0"; return; }
  if (delay > 0) usleep (delay);
  if (stop) async_worker_signal_stop (w);
  long long t0 = now_us ();
  bool joined = async_worker_join (w, join_ms);
  long long t1 = now_us ();
  int state_after = (int) async_worker_get_state (w);
  long long last = c.last_run_us.load ();
  bool second = true;
  if (!joined) { async_worker_signal_stop (w); second = async_worker_join (w, -1); }
  char b[300];
  snprintf (b, sizeof b, "\"created\":1,\"joined\":%d,\"join_us\":%lld,\"state_after\":%d,\"ran_after_join_us\":%lld,\"second_join\":%d,\"iterations\":%d",
            joined ? 1 : 0, t1 - t0, state_after, joined ? (c.last_run_us.load () > t1 ? c.last_run_us.load () - t1 : 0) : 0, second ? 1 : 0, c.iterations.load ());
  (void) last;
  out += b;
  async_worker_destroy (w);
}

// ------------------------------------------------------------------ timer
static std::atomic<long long> tm_last (0);
static std::atomic<int> tm_count (0);
static void tm_cb (void) { tm_last = now_us (); tm_count++; }

static void run_tm (std::vector<std::string> &tok, std::string &out) {
  unsigned long interval = strtoul (tok[1].c_str (), 0, 10); int run_ms = atoi (tok[2].c_str ()); int restarts = atoi (tok[3].c_str ());
  platform_timer_t t;
  out += "\"rounds\":[";
  if (platform_timer_init (&t) != TIMER_OK) { out += "]"; return; }
  for (int r = 0; r <= restarts; r++) {
    tm_count = 0; tm_last = 0;
    int rc = platform_timer_start (&t, interval, tm_cb);
    usleep (run_ms * 1000);
    long long t0 = now_us ();
    int rs = platform_timer_stop (&t);
    long long t1 = now_us ();
    int n_at_stop = tm_count.load ();
    usleep (3 * (interval / 1000 + 1) * 1000 > 30000 ? 30000 : 3 * (interval / 1000 + 1) * 1000);
    char b[200];
    snprintf (b, sizeof b, "%s{\"start\":%d,\"stop\":%d,\"stop_us\":%lld,\"count\":%d,\"after_stop\":%d,\"late_us\":%lld,\"active\":%d}", r ? "," : "", rc, rs, t1 - t0, n_at_stop,
              tm_count.load () - n_at_stop, tm_last.load () > t1 ? tm_last.load () - t1 : 0, platform_timer_is_active (&t));
    out += b;
  }
  out += "]";
  platform_timer_cleanup (&t);
}

int main (int argc, char **argv) {
  int per_case_timeout = argc > 1 ? atoi (argv[1]) : 30;
  signal (SIGALRM, on_alarm);
  signal (SIGPIPE, SIG_IGN);
  std::string line;
  char *buf = 0; size_t cap = 0;
  while (getline (&buf, &cap, stdin) > 0) {
    line = buf;
    while (!line.empty () && (line.back () == '\n' || line.back () == '\r')) line.pop_back ();
    if (line.empty ()) continue;
    std::vector<std::string> tok = split (line, ' ');
    std::string out = "{\"case\":" + std::to_string (cur_case) + ",";
    alarm (per_case_timeout);
    if (tok[0] == "EL") run_el (tok, out);
    else if (tok[0] == "Q1") run_q1 (tok, out);
    else if (tok[0] == "QT") run_qt (tok, out);
    else if (tok[0] == "QB") run_qb (tok, out);
    else if (tok[0] == "WK") run_wk (tok, out);
    else if (tok[0] == "TM") run_tm (tok, out);
    else out += "\"error\":\"unknown\"";
    alarm (0);
    out += "}\n";
    fputs (out.c_str (), stdout);
    fflush (stdout);
    cur_case++;
  }
  return 0;
}
