// Backend mode of lpcvm: the *real* backend() runs in the child; external events
// (ticks, connections, bytes, closes) and top-level calls are executed from the
// interposed async_runtime_wait, one group per backend cycle. DESIGN.md 2.4.
#ifdef HAVE_CONFIG_H
#include <config.h>
#endif
#include <climits>
#include <string>
#include <vector>
#include <map>
#include <cstdio>
#include <cstdlib>
#include <cstring>
#include <unistd.h>
#include <fcntl.h>
#include <errno.h>
#include <poll.h>
#include <sys/socket.h>
#include <sys/ioctl.h>
#include <netinet/in.h>
#include <netinet/tcp.h>
#include <arpa/inet.h>

extern "C" {
#include "std.h"
#include "rc.h"
#include "comm.h"
#include "backend.h"
#include "wraps.h"
}

void run_direct_step (int i, std::vector<std::string> &a);
extern std::string obuf;
void rec_begin_x (int step, const char *st);
void rec_kv_str_x (const char *k, const std::string &s);
void rec_kv_int_x (const char *k, long long v);
void rec_end_x ();

static std::vector<std::vector<std::string> > *g_steps = 0;
static size_t g_idx = 0, g_end = 0;
static long long g_yield_cycles = 0;
static std::map<std::string, int> conns; // script connection id -> client fd
static int console_wfd = -1;

static int port_of (int idx) {
  struct sockaddr_in sin; socklen_t l = sizeof sin;
  if (idx < 0 || idx >= 5 || !external_port[idx].port) return -1;
  if (getsockname (external_port[idx].fd, (struct sockaddr *) &sin, &l) < 0) return -1;
  return ntohs (sin.sin_port);
}

static interactive_t *driver_side (int cfd) {
  struct sockaddr_in me; socklen_t l = sizeof me;
  if (getsockname (cfd, (struct sockaddr *) &me, &l) < 0) return 0;
  for (int i = 0; i < max_users; i++) {
    interactive_t *ip = all_users ? all_users[i] : 0;
    if (!ip || i == 0) continue;
    struct sockaddr_in peer; socklen_t pl = sizeof peer;
    if (getpeername (ip->fd, (struct sockaddr *) &peer, &pl) == 0 && peer.sin_port == me.sin_port) return ip;
  }
  return 0;
}

static std::string drain (int fd) {
  std::string r; char buf[8192];
  for (;;) {
    ssize_t n = recv (fd, buf, sizeof buf, MSG_DONTWAIT);
    if (n > 0) { r.append (buf, (size_t) n); continue; }
    if (n == 0) { r += ""; break; }
    break;
  }
  return r;
}

// executes script steps until one yields to the backend loop
static void wait_hook () {
  if (g_yield_cycles > 0) { g_yield_cycles--; if (g_yield_cycles > 0) return; }
  while (g_idx < g_end) {
    std::vector<std::string> &a = (*g_steps)[g_idx];
    int i = (int) g_idx;
    g_idx++;
    const std::string &c = a[0];
    if (c == "cycle") {
      g_yield_cycles = a.size () > 1 ? atoll (a[1].c_str ()) : 1;
      if (g_yield_cycles < 1) g_yield_cycles = 1;
      return;
    }
    else if (c == "tick") {
      long long dt = a.size () > 1 ? atoll (a[1].c_str ()) : 1;
      verif_clock_advance (dt);
      verif_timer_cb_t cb = verif_timer_callback ();
      if (cb) cb ();
      else { rec_begin_x (i, "notimer"); rec_end_x (); }
    }
    else if (c == "connect") { // connect <id> <portidx>
      int port = port_of (atoi (a[2].c_str ()));
      int fd = socket (AF_INET, SOCK_STREAM, 0);
      struct sockaddr_in sin; memset (&sin, 0, sizeof sin);
      sin.sin_family = AF_INET; sin.sin_port = htons ((unsigned short) port); sin.sin_addr.s_addr = htonl (INADDR_LOOPBACK);
      int one = 1; setsockopt (fd, IPPROTO_TCP, TCP_NODELAY, &one, sizeof one);
      // sockets still open when the case ends are reset, not lingered: thousands of cases must not exhaust the port range with TIME_WAIT
      struct linger lg = {1, 0}; setsockopt (fd, SOL_SOCKET, SO_LINGER, &lg, sizeof lg);
      if (port < 0 || connect (fd, (struct sockaddr *) &sin, sizeof sin) < 0) {
        rec_begin_x (i, "connfail"); rec_kv_int_x ("errno", errno); rec_end_x (); close (fd);
      } else { conns[a[1]] = fd; rec_begin_x (i, "ok"); rec_kv_int_x ("port", port); rec_end_x (); }
    }
    else if (c == "send") { // send <id> <bytes>
      std::map<std::string, int>::iterator it = conns.find (a[1]);
      if (it == conns.end ()) { rec_begin_x (i, "noconn"); rec_end_x (); continue; }
      const std::string &d = a.size () > 2 ? a[2] : std::string ();
      size_t off = 0;
      while (off < d.size ()) {
        ssize_t n = send (it->second, d.data () + off, d.size () - off, MSG_NOSIGNAL);
        if (n <= 0) break; off += (size_t) n;
      }
      // make "the bytes have reached the driver-side socket" a fact, not a guess
      interactive_t *ip = driver_side (it->second);
      long long avail = -1;
      if (ip) {
        for (int spin = 0; spin < 2000; spin++) {
          int nread = 0; ioctl (ip->fd, FIONREAD, &nread); avail = nread;
          if ((size_t) nread >= d.size () || (size_t) nread >= 1) break;
          usleep (100);
        }
      }
      rec_begin_x (i, "ok"); rec_kv_int_x ("sent", (long long) off); rec_kv_int_x ("avail", avail); rec_end_x ();
    }
    else if (c == "close") {
      std::map<std::string, int>::iterator it = conns.find (a[1]);
      if (it != conns.end ()) {
        if (!(a.size () > 2 && a[2] == "rst")) { struct linger lg = {0, 0}; setsockopt (it->second, SOL_SOCKET, SO_LINGER, &lg, sizeof lg); } // orderly FIN unless "rst"
        close (it->second); conns.erase (it);
      }
      rec_begin_x (i, "ok"); rec_end_x ();
    }
    else if (c == "shutwr") {
      std::map<std::string, int>::iterator it = conns.find (a[1]);
      if (it != conns.end ()) shutdown (it->second, SHUT_WR);
      rec_begin_x (i, "ok"); rec_end_x ();
    }
    else if (c == "recv") {
      std::map<std::string, int>::iterator it = conns.find (a[1]);
      if (it == conns.end ()) { rec_begin_x (i, "noconn"); rec_end_x (); continue; }
      std::string d = drain (it->second);
      rec_begin_x (i, "data"); rec_kv_str_x ("d", d); rec_end_x ();
    }
    else if (c == "console") { // console <bytes>: feed the console worker's stdin
      if (console_wfd >= 0 && a.size () > 2 - 1) { const std::string &d = a[1]; ssize_t r = write (console_wfd, d.data (), d.size ()); (void) r; }
      rec_begin_x (i, "ok"); rec_end_x ();
    }
    else if (c == "sleepms") { usleep ((useconds_t) atoi (a[1].c_str ()) * 1000); }
    else if (c == "sendplan") { // sendplan <kind>[:n] ...
      verif_sendplan_clear ();
      for (size_t k = 1; k < a.size (); k++) {
        long n = 0; size_t p = a[k].find (':'); if (p != std::string::npos) n = atol (a[k].c_str () + p + 1);
        verif_sendplan_add (a[k][0], n);
      }
    }
    else if (c == "sendlog") {
      rec_begin_x (i, "sendlog"); obuf += ",\"log\":[";
      int n = verif_sendlog_count ();
      for (int k = 0; k < n; k++) {
        int fd, err; long asked, ret; verif_sendlog_get (k, &fd, &asked, &ret, &err);
        char b[96]; snprintf (b, sizeof b, "%s[%d,%ld,%ld,%d]", k ? "," : "", fd, asked, ret, err); obuf += b;
      }
      obuf += "]"; rec_end_x (); verif_sendlog_clear ();
    }
    else if (c == "users") {
      rec_begin_x (i, "users"); obuf += ",\"slots\":[";
      for (int k = 0; k < max_users; k++) {
        char b[64];
        interactive_t *ip = all_users ? all_users[k] : 0;
        snprintf (b, sizeof b, "%s%d", k ? "," : "", ip ? 1 : 0); obuf += b;
      }
      obuf += "]"; rec_kv_int_x ("cycles", verif_cycles); rec_end_x ();
    }
    else run_direct_step (i, a);
  }
  // script exhausted: ask backend() to return to the harness
  g_proceeding_shutdown = 1;
}

void run_backend_steps (std::vector<std::vector<std::string> > &steps, size_t &idx) {
  // steps[idx] == "backend" [console]
  bool console = steps[idx].size () > 1 && steps[idx][1] == "console";
  size_t end = idx + 1;
  while (end < steps.size () && steps[end][0] != "endbackend") end++;
  g_steps = &steps; g_idx = idx + 1; g_end = end; g_yield_cycles = 0;
  if (console) {
    int p[2];
    if (pipe (p) == 0) { dup2 (p[0], 0); close (p[0]); console_wfd = p[1]; }
    MAIN_OPTION (console_mode) = 1;
  }
  verif_wait_hook = wait_hook;
  backend ();
  verif_wait_hook = 0;
  g_proceeding_shutdown = 0;
  rec_begin_x ((int) end, "backend_returned"); rec_kv_int_x ("cycles", verif_cycles); rec_kv_int_x ("left", (long long) (g_end - g_idx)); rec_end_x ();
  idx = end < steps.size () ? end + 1 : end;
}
