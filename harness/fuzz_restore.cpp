// libFuzzer target for C16: bytes -> restore_variable(text). A text that is refused (an LPC error) is a clean rejection.
// A text that restores must survive the round trip: save_variable(v) restores to a value whose saved text is the same
// (fixpoint after one step; floats are printed with a fixed precision, so the first save may differ from the input).
#include <config.h>
#include <climits>
#include <cstdio>
#include <cstdlib>
#include <cstring>
#include <csetjmp>
#include <cstdint>
#include <string>

extern "C" {
#include "std.h"
#include "rc.h"
#include "lpc/types.h"
#include "lpc/object.h"
#include "lpc/svalue.h"
#include "lpc/array.h"
#include "lpc/mapping.h"
}
#include <cmath>
#include <initializer_list>

void fuzz_driver_startup ();

extern "C" int LLVMFuzzerInitialize (int *, char ***) {
  fuzz_driver_startup ();
  return 0;
}

// structural equality; floats to the printed precision ("%g": six digits). The order in which a mapping's pairs are saved depends on the
// addresses of its keys and is not compared; pairs whose key is a float, array, mapping or class are only counted.
static bool same (svalue_t *a, svalue_t *b, int depth) {
  if (depth > 60) return true;
  if (a->type != b->type) return false;
  switch (a->type) {
  case T_NUMBER: return a->u.number == b->u.number;
  case T_REAL: {
    double x = a->u.real, y = b->u.real;
    if (x != x || y != y) return (x != x) && (y != y);
    if (x == y) return true;
    if (x - x != 0.0 || y - y != 0.0) return false;          // an infinity against something else
    if (fabs (x) < 1e-300 && fabs (y) < 1e-300) return true;  // the subnormal range is excluded, as in the Hypothesis layer: "%g" and pow() lose it
    return fabs (x - y) <= 1e-5 * fmax (fabs (x), fabs (y));
  }
  case T_STRING: {
    // known finding KF-C16-1 (a carriage return is written raw and read back as a newline) is excluded by construction,
    // so that the campaign goes on behind it: CR and LF compare equal here
    const unsigned char *p = (const unsigned char *) a->u.string, *q = (const unsigned char *) b->u.string;
    for (; *p && *q; p++, q++) {
      unsigned char x = *p == '\r' ? '\n' : *p, y = *q == '\r' ? '\n' : *q;
      if (x != y) return false;
    }
    return *p == *q;
  }
  case T_ARRAY: case T_CLASS:
    if (a->u.arr->size != b->u.arr->size) return false;
    for (int i = 0; i < a->u.arr->size; i++) if (!same (&a->u.arr->item[i], &b->u.arr->item[i], depth + 1)) return false;
    return true;
  case T_MAPPING: {
    mapping_t *m = a->u.map, *n = b->u.map;
    // float keys are outside what is compared: two keys that differ behind the sixth digit are saved as the same text ("floats to
    // the printed precision" is what the property grants), so the number of pairs may shrink. The same for a key with a CR in it
    // (KF-C16-1 turns it into LF, which can merge it with another key) - on either side.
    for (mapping_t *mm : { m, n })
      for (int j = 0; j <= mm->table_size; j++)
        for (mapping_node_t *e = mm->table[j]; e; e = e->next)
          if (e->values[0].type == T_REAL || (e->values[0].type == T_STRING && strpbrk (e->values[0].u.string, "\r\n"))) return true;
    if (m->count != n->count) return false;
    for (int j = 0; j <= m->table_size; j++)
      for (mapping_node_t *e = m->table[j]; e; e = e->next) {
        if (e->values[0].type != T_NUMBER && e->values[0].type != T_STRING) continue;
        if (e->values[0].type == T_STRING && strpbrk (e->values[0].u.string, "\r\n")) continue;   // KF-C16-1 in a key: it is found under another key (CR became LF)
        svalue_t *v = find_in_mapping (n, &e->values[0]);
        if (!v || v == &const0u || !same (&e->values[1], v, depth + 1)) {
          if (!(e->values[1].type == T_NUMBER && e->values[1].u.number == 0 && v && v->type == T_NUMBER && v->u.number == 0)) return false;
        }
      }
    return true;
  }
  default: return true;
  }
}

// 0 = refused, 1 = restored (text of the saved value in out, the value itself in *keep when asked for)
static int restore_and_save (const char *text, size_t n, std::string &out, svalue_t *keep = 0) {
  error_context_t econ;
  char *buf = new_string (n, "fuzz_restore");   // restore works in place on a malloc'ed string, as the efun does
  memcpy (buf, text, n); buf[n] = 0;
  static svalue_t v;
  v = const0;
  if (!save_context (&econ)) { FREE_MSTR (buf); return 0; }
  if (setjmp (econ.context)) {
    restore_context (&econ); pop_context (&econ);
    FREE_MSTR (buf);
    return 0;
  }
  eval_cost = CONFIG_INT (__MAX_EVAL_COST__);
  restore_variable (&v, buf);
  char *s = save_variable (&v);
  out.assign (s);
  FREE_MSTR (s);
  if (keep) *keep = v; else free_svalue (&v, "fuzz_restore");
  pop_context (&econ);
  FREE_MSTR (buf);
  return 1;
}

extern "C" int LLVMFuzzerTestOneInput (const uint8_t *data, size_t size) {
  if (size > 8192) return 0;
  if (memchr (data, 0, size)) return 0;      // the efun takes an LPC string: no NUL inside
  std::string s1, s2, s3;
  svalue_t v1 = const0, v2 = const0, v3 = const0;
  if (!restore_and_save ((const char *) data, size, s1, &v1)) return 0;
  if (!restore_and_save (s1.data (), s1.size (), s2, &v2)) {
    fprintf (stderr, "C16-ORACLE: the text written by save_variable is refused by restore_variable\n");
    __builtin_trap ();
  }
  if (!same (&v1, &v2, 0) || !same (&v2, &v1, 0)) {
    fprintf (stderr, "C16-ORACLE: a restored value does not survive save and restore\n");
    __builtin_trap ();
  }
  free_svalue (&v1, "fuzz_restore"); free_svalue (&v2, "fuzz_restore");
  return 0;
}
