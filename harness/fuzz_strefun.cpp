// libFuzzer target for C01 (string efuns with a little language of their own): bytes -> selector + three strings ->
// one LPC function that calls the efun under catch(). A raised LPC error is a clean rejection; the oracle is the
// sanitizer (memory errors) plus "the call returns to the driver".
#include <config.h>
#include <climits>
#include <cstdio>
#include <cstdlib>
#include <cstring>
#include <csetjmp>
#include <cstdint>
#include <string>
#include <vector>

extern "C" {
#include "std.h"
#include "rc.h"
#include "lpc/types.h"
#include "lpc/object.h"
#include "lpc/svalue.h"
#include "src/apply.h"
#include "lpc/include/origin.h"
}

void fuzz_driver_startup ();
static object_t *agent;

extern "C" int LLVMFuzzerInitialize (int *, char ***) {
  fuzz_driver_startup ();
  error_context_t econ;
  save_context (&econ);
  if (setjmp (econ.context)) { restore_context (&econ); pop_context (&econ); fprintf (stderr, "fuzz_strefun: agent does not load\n"); exit (4); }
  eval_cost = CONFIG_INT (__MAX_EVAL_COST__);
  agent = find_or_load_object ("t/strefun.c");
  pop_context (&econ);
  if (!agent) { fprintf (stderr, "fuzz_strefun: no agent\n"); exit (4); }
  add_ref (agent, "fuzz_strefun");
  return 0;
}

extern "C" int LLVMFuzzerTestOneInput (const uint8_t *data, size_t size) {
  if (size < 2 || size > 2048) return 0;
  int which = data[0];
  std::vector<std::string> parts (3);
  size_t k = 0;
  for (size_t i = 1; i < size; i++) {
    if (data[i] == 0xFF && k < 2) { k++; continue; }
    if (data[i] == 0) continue;               // LPC strings hold no NUL
    parts[k].push_back ((char) data[i]);
  }
  if (agent->flags & O_DESTRUCTED) return 0;
  error_context_t econ;
  if (!save_context (&econ)) return 0;
  if (setjmp (econ.context)) { restore_context (&econ); pop_context (&econ); return 0; }
  eval_cost = CONFIG_INT (__MAX_EVAL_COST__);
  push_number (which);
  for (int i = 0; i < 3; i++) copy_and_push_string (parts[i].c_str ());
  apply ("f", agent, 4, ORIGIN_DRIVER);
  pop_context (&econ);
  return 0;
}
