// shared start-up for the libFuzzer targets: an in-process driver over a scratch mudlib given by VERIF_FUZZ_CONF
#include <config.h>
#include <climits>
#include <clocale>
#include <cstdio>
#include <cstdlib>
#include <cstring>
#include <csetjmp>
#include <unistd.h>

extern "C" {
#include "std.h"
#include "rc.h"
#include "comm.h"
#include "simul_efun.h"
#include "uids.h"
#include "lpc/types.h"
#include "lpc/object.h"
#include "lpc/program.h"
#include "lpc/compiler.h"
#include "lpc/lex.h"
}

void fuzz_driver_startup () {
  const char *conf = getenv ("VERIF_FUZZ_CONF");
  if (!conf) { fprintf (stderr, "VERIF_FUZZ_CONF not set\n"); exit (2); }
  setlocale (LC_ALL, PLATFORM_UTF8_LOCALE);
  init_stem (0, 0, conf);
  init_config (MAIN_OPTION (config_file));
  debug_set_log_with_date (0);
  if (-1 == chdir (CONFIG_STR (__MUD_LIB_DIR__))) { perror ("chdir mudlib"); exit (2); }
  init_strings (CONFIG_INT (__SHARED_STRING_HASH_TABLE_SIZE__), CONFIG_INT (__MAX_STRING_LENGTH__));
  init_lpc_compiler (CONFIG_INT (__MAX_LOCAL_VARIABLES__), CONFIG_STR (__INCLUDE_DIRS__));
  setup_simulate ();
  eval_cost = CONFIG_INT (__MAX_EVAL_COST__);
  error_context_t econ;
  save_context (&econ);
  if (setjmp (econ.context)) {
    restore_context (&econ); pop_context (&econ);
    fprintf (stderr, "fuzz: error in mudlib startup\n");
    exit (3);
  }
  current_time = time (NULL);
  init_simul_efun (CONFIG_STR (__SIMUL_EFUN_FILE__));
  init_master (CONFIG_STR (__MASTER_FILE__));
  preload_objects (0);
  pop_context (&econ);
  // the driver's chatter would drown libFuzzer's output
}
