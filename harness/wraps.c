/* Link-time interposers (-Wl,--wrap=SYM): the repository's objects keep calling
 * time(), send(), open() ... and land here. See DESIGN.md 2.4. */
#define _GNU_SOURCE
#include <stdio.h>
#include <stdlib.h>
#include <string.h>
#include <stdarg.h>
#include <errno.h>
#include <time.h>
#include <fcntl.h>
#include <unistd.h>
#include <dirent.h>
#include <utime.h>
#include <sys/time.h>
#include <sys/stat.h>
#include <sys/types.h>
#include <sys/socket.h>
#include <netinet/in.h>
#include "wraps.h"
#include "port/timer.h"
#include "async/async_runtime.h"

volatile int verif_harness_exiting = 0;

/* ---------------------------------------------------------------- clock */
static long long vclock = 1000000000LL;
void verif_clock_set (long long t) { vclock = t; }
long long verif_clock_get (void) { return vclock; }
void verif_clock_advance (long long dt) { vclock += dt; }

time_t __wrap_time (time_t *t) { if (t) *t = (time_t) vclock; return (time_t) vclock; }
int __wrap_gettimeofday (struct timeval *tv, void *tz) { (void) tz; if (tv) { tv->tv_sec = (time_t) vclock; tv->tv_usec = 0; } return 0; }

/* ---------------------------------------------------------------- timer */
static verif_timer_cb_t timer_cb = 0;
verif_timer_cb_t verif_timer_callback (void) { return timer_cb; }
timer_error_t __real_platform_timer_start (platform_timer_t *timer, unsigned long interval_us, timer_callback_t callback);
timer_error_t __real_platform_timer_stop (platform_timer_t *timer);
static int real_timer (void) { const char *e = getenv ("VERIF_REAL_TIMER"); return e && *e == '1'; }
timer_error_t __wrap_platform_timer_start (platform_timer_t *timer, unsigned long interval_us, timer_callback_t callback) {
  if (real_timer ())      /* C19 driver session: the real timer thread, at a short interval so that a few seconds hold many ticks */
    return __real_platform_timer_start (timer, 20000, callback);
  (void) timer; (void) interval_us;
  timer_cb = callback; /* no thread: ticks are scripted */
  return TIMER_OK;
}
timer_error_t __wrap_platform_timer_stop (platform_timer_t *timer) {
  if (real_timer ())
    return __real_platform_timer_stop (timer);
  (void) timer; timer_cb = 0; return TIMER_OK;
}

/* ---------------------------------------------------------------- backend stepping */
void (*verif_wait_hook) (void) = 0;
long long verif_cycles = 0;
int __real_async_runtime_wait (async_runtime_t *, io_event_t *, int, struct timeval *);
int __wrap_async_runtime_wait (async_runtime_t *rt, io_event_t *ev, int max, struct timeval *timeout) {
  struct timeval zero = {0, 0};
  (void) timeout;
  if (verif_wait_hook) verif_wait_hook ();
  verif_cycles++;
  return __real_async_runtime_wait (rt, ev, max, &zero);
}

/* ---------------------------------------------------------------- bind: ephemeral ports */
int __real_bind (int, const struct sockaddr *, socklen_t);
int __wrap_bind (int fd, const struct sockaddr *addr, socklen_t len) {
  if (addr && addr->sa_family == AF_INET && len >= sizeof (struct sockaddr_in)) {
    struct sockaddr_in sin = *(const struct sockaddr_in *) addr;
    sin.sin_port = 0; /* kernel picks a free port; the harness reads it back with getsockname */
    sin.sin_addr.s_addr = htonl (INADDR_LOOPBACK);
    return __real_bind (fd, (struct sockaddr *) &sin, sizeof sin);
  }
  return __real_bind (fd, addr, len);
}

/* ---------------------------------------------------------------- send plan */
#define PLAN_MAX 4096
static struct { int kind; long n; } plan[PLAN_MAX];
static int plan_len = 0, plan_pos = 0;
static struct { int fd; long asked, ret; int err; } slog[PLAN_MAX * 4];
static int slog_len = 0;
void verif_sendplan_clear (void) { plan_len = plan_pos = 0; }
void verif_sendplan_add (int kind, long n) { if (plan_len < PLAN_MAX) { plan[plan_len].kind = kind; plan[plan_len].n = n; plan_len++; } }
int verif_sendlog_count (void) { return slog_len; }
void verif_sendlog_get (int i, int *fd, long *asked, long *ret, int *err) { *fd = slog[i].fd; *asked = slog[i].asked; *ret = slog[i].ret; *err = slog[i].err; }
void verif_sendlog_clear (void) { slog_len = 0; }
ssize_t __real_send (int, const void *, size_t, int);
ssize_t __wrap_send (int fd, const void *buf, size_t len, int flags) {
  ssize_t r; int e = 0;
  if (plan_pos < plan_len) {
    int k = plan[plan_pos].kind; long n = plan[plan_pos].n; plan_pos++;
    switch (k) {
    case 'W': r = -1; e = EWOULDBLOCK; break;
    case 'I': r = -1; e = EINTR; break;
    case 'E': r = -1; e = EPIPE; break;
    case 'P': if (n < 1) n = 1; if ((size_t) n > len) n = (long) len; r = len ? __real_send (fd, buf, (size_t) n, flags) : 0; if (r < 0) e = errno; break;
    default: r = __real_send (fd, buf, len, flags); if (r < 0) e = errno; break;
    }
  } else { r = __real_send (fd, buf, len, flags); if (r < 0) e = errno; }
  if (slog_len < PLAN_MAX * 4) { slog[slog_len].fd = fd; slog[slog_len].asked = (long) len; slog[slog_len].ret = (long) r; slog[slog_len].err = e; slog_len++; }
  errno = e;
  return r;
}

/* ---------------------------------------------------------------- file access log */
#define FLOG_MAX 2048
static int flog_on = 0, flog_len = 0;
static const char *flog_fn[FLOG_MAX];
static char *flog_path[FLOG_MAX];
void verif_filelog_enable (int on) { flog_on = on; }
int verif_filelog_count (void) { return flog_len; }
const char *verif_filelog_func (int i) { return flog_fn[i]; }
const char *verif_filelog_path (int i) { return flog_path[i]; }
void verif_filelog_clear (void) { int i; for (i = 0; i < flog_len; i++) free (flog_path[i]); flog_len = 0; }
static void flog (const char *fn, const char *path) {
  if (!flog_on || flog_len >= FLOG_MAX) return;
  flog_fn[flog_len] = fn; flog_path[flog_len] = strdup (path ? path : "(null)"); flog_len++;
}
static void flog2 (const char *fn, const char *a, const char *b) { flog (fn, a); flog (fn, b); }

int __real_open (const char *, int, ...);
int __wrap_open (const char *p, int fl, ...) { mode_t m = 0; if (fl & (O_CREAT | O_TMPFILE)) { va_list ap; va_start (ap, fl); m = (mode_t) va_arg (ap, int); va_end (ap); } flog ("open", p); return __real_open (p, fl, m); }
int __real_open64 (const char *, int, ...);
int __wrap_open64 (const char *p, int fl, ...) { mode_t m = 0; if (fl & (O_CREAT | O_TMPFILE)) { va_list ap; va_start (ap, fl); m = (mode_t) va_arg (ap, int); va_end (ap); } flog ("open", p); return __real_open64 (p, fl, m); }
FILE *__real_fopen (const char *, const char *);
FILE *__wrap_fopen (const char *p, const char *m) { flog ("fopen", p); return __real_fopen (p, m); }
FILE *__real_fopen64 (const char *, const char *);
FILE *__wrap_fopen64 (const char *p, const char *m) { flog ("fopen", p); return __real_fopen64 (p, m); }
FILE *__real_freopen (const char *, const char *, FILE *);
FILE *__wrap_freopen (const char *p, const char *m, FILE *f) { flog ("freopen", p); return __real_freopen (p, m, f); }
int __real_creat (const char *, mode_t);
int __wrap_creat (const char *p, mode_t m) { flog ("creat", p); return __real_creat (p, m); }
int __real_stat (const char *, struct stat *);
int __wrap_stat (const char *p, struct stat *s) { flog ("stat", p); return __real_stat (p, s); }
int __real_stat64 (const char *, struct stat64 *);
int __wrap_stat64 (const char *p, struct stat64 *s) { flog ("stat", p); return __real_stat64 (p, s); }
int __real_lstat (const char *, struct stat *);
int __wrap_lstat (const char *p, struct stat *s) { flog ("lstat", p); return __real_lstat (p, s); }
int __real_lstat64 (const char *, struct stat64 *);
int __wrap_lstat64 (const char *p, struct stat64 *s) { flog ("lstat", p); return __real_lstat64 (p, s); }
int __real_unlink (const char *);
int __wrap_unlink (const char *p) { flog ("unlink", p); return __real_unlink (p); }
int __real_rename (const char *, const char *);
int __wrap_rename (const char *a, const char *b) { flog2 ("rename", a, b); return __real_rename (a, b); }
int __real_mkdir (const char *, mode_t);
int __wrap_mkdir (const char *p, mode_t m) { flog ("mkdir", p); return __real_mkdir (p, m); }
int __real_rmdir (const char *);
int __wrap_rmdir (const char *p) { flog ("rmdir", p); return __real_rmdir (p); }
DIR *__real_opendir (const char *);
DIR *__wrap_opendir (const char *p) { flog ("opendir", p); return __real_opendir (p); }
int __real_link (const char *, const char *);
int __wrap_link (const char *a, const char *b) { flog2 ("link", a, b); return __real_link (a, b); }
int __real_symlink (const char *, const char *);
int __wrap_symlink (const char *a, const char *b) { flog2 ("symlink", a, b); return __real_symlink (a, b); }
int __real_access (const char *, int);
int __wrap_access (const char *p, int m) { flog ("access", p); return __real_access (p, m); }
int __real_truncate (const char *, off_t);
int __wrap_truncate (const char *p, off_t l) { flog ("truncate", p); return __real_truncate (p, l); }
int __real_chmod (const char *, mode_t);
int __wrap_chmod (const char *p, mode_t m) { flog ("chmod", p); return __real_chmod (p, m); }
ssize_t __real_readlink (const char *, char *, size_t);
ssize_t __wrap_readlink (const char *p, char *b, size_t n) { flog ("readlink", p); return __real_readlink (p, b, n); }
int __real_chdir (const char *);
int __wrap_chdir (const char *p) { flog ("chdir", p); return __real_chdir (p); }
int __real_utime (const char *, const struct utimbuf *);
int __wrap_utime (const char *p, const struct utimbuf *t) { flog ("utime", p); return __real_utime (p, t); }

/* ---------------------------------------------------------------- termination */
void __real_exit (int) __attribute__ ((noreturn));
void __wrap_exit (int c) { if (!verif_harness_exiting) { verif_harness_exiting = 1; verif_note_termination ("exit", c); } __real_exit (c); }
void __real__exit (int) __attribute__ ((noreturn));
void __wrap__exit (int c) { if (!verif_harness_exiting) { verif_harness_exiting = 1; verif_note_termination ("_exit", c); } __real__exit (c); }
void __real_abort (void) __attribute__ ((noreturn));
void __wrap_abort (void) { if (!verif_harness_exiting) { verif_harness_exiting = 1; verif_note_termination ("abort", 0); } __real_abort (); }
