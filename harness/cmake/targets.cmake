# Harness targets built inside the repository's own build graph, from the
# sources as they are on disk. VERIF_HARNESS_DIR and VERIF_FLAVOUR are cache vars.
set(H ${VERIF_HARNESS_DIR})

set(VERIF_WRAPS
  time gettimeofday platform_timer_start platform_timer_stop async_runtime_wait
  send bind
  open open64 fopen fopen64 stat stat64 lstat lstat64 unlink rename mkdir rmdir opendir link symlink
  access truncate chmod freopen creat readlink chdir utime
  exit _exit abort)
set(VERIF_WRAP_FLAGS "")
foreach(w ${VERIF_WRAPS})
  list(APPEND VERIF_WRAP_FLAGS "-Wl,--wrap=${w}")
endforeach()

if(VERIF_FLAVOUR STREQUAL "asan" OR VERIF_FLAVOUR STREQUAL "tsan")
  add_executable(lpcvm ${H}/lpcvm.cpp ${H}/lpcvm_backend.cpp ${H}/wraps.c)
  target_link_libraries(lpcvm PRIVATE stem)
  target_link_options(lpcvm PRIVATE ${VERIF_WRAP_FLAGS})
  target_include_directories(lpcvm PRIVATE ${CMAKE_SOURCE_DIR}/lib ${CMAKE_SOURCE_DIR}/src)

  target_include_directories(lpcvm PRIVATE ${H})
  if(EXISTS ${H}/asynccheck.cpp)
    add_executable(asynccheck ${H}/asynccheck.cpp)
    target_link_libraries(asynccheck PRIVATE async port)
    target_include_directories(asynccheck PRIVATE ${CMAKE_SOURCE_DIR}/lib)
  endif()
endif()

if(VERIF_FLAVOUR STREQUAL "fuzz")
  foreach(t fuzz_compile fuzz_restore fuzz_strefun)
    if(EXISTS ${H}/${t}.cpp)
      add_executable(${t} ${H}/${t}.cpp ${H}/fuzz_common.cpp)
      target_link_libraries(${t} PRIVATE stem)
      target_link_options(${t} PRIVATE -fsanitize=fuzzer)
      target_include_directories(${t} PRIVATE ${CMAKE_SOURCE_DIR}/lib ${CMAKE_SOURCE_DIR}/src)
    endif()
  endforeach()
endif()
