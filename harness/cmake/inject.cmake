# Passed as CMAKE_PROJECT_TOP_LEVEL_INCLUDES: defers targets.cmake until the
# repository's own CMakeLists.txt has defined its targets (stem, async, port...).
cmake_language(DEFER DIRECTORY ${CMAKE_SOURCE_DIR} CALL include "${VERIF_HARNESS_DIR}/cmake/targets.cmake")
