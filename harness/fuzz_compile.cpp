// libFuzzer target for C02: bytes -> a source file in the scratch mudlib -> load_object(); then the fixed probe program is
// compiled and its address-free summary must equal the one taken before the first input (compiler reusable).
// The first byte selects how the rest is used: 0..1 one file; 2..3 split at the first 0xFF into an include file and a main file.
#include <config.h>
#include <climits>
#include <cstdio>
#include <cstdlib>
#include <cstring>
#include <csetjmp>
#include <string>
#include <vector>
#include <algorithm>
#include <unistd.h>
#include <fcntl.h>

extern "C" {
#include "std.h"
#include "rc.h"
#include "comm.h"
#include "simul_efun.h"
#include "uids.h"
#include "lpc/types.h"
#include "lpc/object.h"
#include "lpc/program.h"
#include "lpc/compiler.h"
#include "lpc/lex.h"
}

void fuzz_driver_startup ();

static std::string summary (object_t *ob) {
  program_t *p = ob->prog;
  std::vector<std::string> v;
  char b[700];
  for (int i = 0; i < p->num_functions_defined; i++) {
    compiler_function_t *f = &p->function_table[i];
    runtime_function_u *e = FIND_FUNC_ENTRY (p, f->runtime_index);
    snprintf (b, sizeof b, "%.400s|t%d|fl%x|a%d|l%d", f->name ? f->name : "?", (int) f->type, (unsigned) p->function_flags[f->runtime_index], (int) e->def.num_arg, (int) e->def.num_local);
    v.push_back (b);
  }
  std::sort (v.begin (), v.end ());
  std::string out;
  snprintf (b, sizeof b, "size=%d nf=%d ns=%d nv=%d ni=%d nc=%d;", p->program_size, p->num_functions_defined, p->num_strings, p->num_variables_defined, p->num_inherited, p->num_classes);
  out = b;
  for (auto &x : v) { out += x; out += ";"; }
  std::vector<std::string> s;
  for (int i = 0; i < p->num_strings; i++) s.push_back (p->strings[i] ? p->strings[i] : "?");
  std::sort (s.begin (), s.end ());
  for (auto &x : s) { out += x; out += "\x01"; }
  return out;
}

static void write_file (const char *path, const uint8_t *d, size_t n) {
  int fd = open (path, O_WRONLY | O_CREAT | O_TRUNC, 0644);
  if (fd < 0) return;
  while (n) { ssize_t k = write (fd, d, n); if (k <= 0) break; d += k; n -= (size_t) k; }
  close (fd);
}

static object_t *load (const char *name) {
  error_context_t econ;
  object_t *ob = 0;
  if (!save_context (&econ)) return 0;
  if (setjmp (econ.context)) { restore_context (&econ); pop_context (&econ); return 0; }
  eval_cost = CONFIG_INT (__MAX_EVAL_COST__);
  ob = find_or_load_object (name);
  pop_context (&econ);
  return ob;
}

static void unload (object_t *ob) {
  error_context_t econ;
  if (!ob || (ob->flags & O_DESTRUCTED)) return;
  if (!save_context (&econ)) return;
  if (setjmp (econ.context)) { restore_context (&econ); pop_context (&econ); return; }
  destruct_object (ob);
  pop_context (&econ);
  remove_destructed_objects ();
}

static std::string reference;

extern "C" int LLVMFuzzerInitialize (int *, char ***) {
  fuzz_driver_startup ();
  object_t *p = load ("t/c02probe.c");
  if (!p) { fprintf (stderr, "fuzz_compile: the probe does not compile\n"); exit (4); }
  reference = summary (p);
  unload (p);
  return 0;
}

extern "C" int LLVMFuzzerTestOneInput (const uint8_t *data, size_t size) {
  if (size < 1 || size > 65536) return 0;
  int mode = data[0] & 3;
  data++; size--;
  const uint8_t *main_src = data; size_t main_n = size;
  if (mode >= 2) {
    const uint8_t *cut = (const uint8_t *) memchr (data, 0xFF, size);
    if (cut) { write_file ("fz_inc.h", data, (size_t) (cut - data)); main_src = cut + 1; main_n = size - (size_t) (cut - data) - 1; }
  }
  write_file ("t/fz.c", main_src, main_n);
  object_t *x = load ("t/fz.c");
  unload (x);
  object_t *p = load ("t/c02probe.c");
  if (!p) {
    fprintf (stderr, "C02-ORACLE: the probe program no longer compiles after this input\n");
    __builtin_trap ();
  }
  std::string now = summary (p);
  unload (p);
  if (now != reference) {
    fprintf (stderr, "C02-ORACLE: the probe program compiled to a different program after this input\n");
    __builtin_trap ();
  }
  return 0;
}
