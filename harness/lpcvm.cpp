// lpcvm - in-process neolith driver harness ("worker") for the /verif checks.
//
//   lpcvm -f <config file> [--console]
//
// Performs the driver's start-up sequence exactly as src/main.c does, then serves
// *cases* from stdin. Every case runs in a fork()ed child, so a sanitizer abort,
// signal, fatal() or exit() only kills that child and no state leaks between cases.
//
// Case:  lines "<cmd> <arg> ..." (args %XX-escaped), terminated by a line "END".
// Reply: one JSON object per line on stdout; the child writes step records, the
//        parent appends {"exit":...} after reaping the child.
//
// See /verif/DESIGN.md section 2.3.
#ifdef HAVE_CONFIG_H
#include <config.h>
#endif
#include <climits>
#include <string>
#include <vector>
#include <algorithm>
#include <cstdio>
#include <cstdlib>
#include <cstring>
#include <cstdarg>
#include <csignal>
#include <clocale>
#include <unistd.h>
#include <fcntl.h>
#include <sys/wait.h>
#include <sys/stat.h>
#include <sys/socket.h>
#include <sys/ioctl.h>
#include <netinet/in.h>
#include <netinet/tcp.h>
#include <arpa/inet.h>
#include <poll.h>
#include <time.h>

extern "C" {
#include "std.h"
#include "rc.h"
#include "comm.h"
#include "simul_efun.h"
#include "uids.h"
#include "lpc/types.h"
#include "lpc/object.h"
#include "lpc/otable.h"
#include "lpc/array.h"
#include "lpc/mapping.h"
#include "lpc/buffer.h"
#include "lpc/class.h"
#include "lpc/program.h"
#include "lpc/compiler.h"
#include "lpc/lex.h"
#include "lpc/functional.h"
#include "lpc/include/origin.h"
#include "efuns/call_out.h"
#include "port/timer.h"
#include "async/async_runtime.h"
#include "wraps.h"

#ifdef NEOLITH_VERIF
extern void (*neolith_verif_dispatch_hook) (int);
int neolith_verif_error_context_depth (void);
int neolith_verif_error_flags (void);
int neolith_verif_command_giver_stack_depth (void);
int neolith_verif_num_objects_this_thread (void);
object_t *neolith_verif_restrict_destruct (void);
#endif
size_t __sanitizer_get_current_allocated_bytes (void) __attribute__((weak));
}

// ------------------------------------------------------------------ output
static int out_fd = 1;
std::string obuf;

static void out_flush () {
  size_t off = 0;
  while (off < obuf.size ()) {
    ssize_t n = write (out_fd, obuf.data () + off, obuf.size () - off);
    if (n <= 0) { if (errno == EINTR) continue; break; }
    off += (size_t) n;
  }
  obuf.clear ();
}

static void js_str (std::string &o, const char *s, size_t n) {
  o.push_back ('"');
  for (size_t i = 0; i < n; i++) {
    unsigned char c = (unsigned char) s[i];
    if (c == '"' || c == '\\') { o.push_back ('\\'); o.push_back ((char) c); }
    else if (c < 0x20 || c >= 0x7f) { char b[8]; snprintf (b, sizeof b, "\\u%04x", c); o += b; }
    else o.push_back ((char) c);
  }
  o.push_back ('"');
}
static void js_str (std::string &o, const std::string &s) { js_str (o, s.data (), s.size ()); }
static void js_cstr (std::string &o, const char *s) { if (!s) o += "null"; else js_str (o, s, strlen (s)); }

static int sv_budget; // remaining nodes for serialisation

static void js_value (std::string &o, svalue_t *v, int depth);

static void js_items (std::string &o, svalue_t *it, int n, int depth) {
  o.push_back ('[');
  for (int i = 0; i < n; i++) {
    if (i) o.push_back (',');
    js_value (o, it + i, depth + 1);
  }
  o.push_back (']');
}

static void js_value (std::string &o, svalue_t *v, int depth) {
  char b[64];
  if (--sv_budget < 0 || depth > 40) { o += "{\"trunc\":1}"; return; }
  switch (v->type) {
  case T_NUMBER:
    snprintf (b, sizeof b, "%lld", (long long) v->u.number); o += b;
    if (v->subtype == T_UNDEFINED && v->u.number == 0 && 0) o += "";
    break;
  case T_REAL:
    snprintf (b, sizeof b, "{\"f\":\"%a\"}", v->u.real); o += b; break;
  case T_STRING: {
    size_t n = SVALUE_STRLEN (v);
    js_str (o, v->u.string, n); break; }
  case T_ARRAY:
    o += "{\"a\":"; js_items (o, v->u.arr->item, v->u.arr->size, depth); o += "}"; break;
  case T_CLASS:
    o += "{\"c\":"; js_items (o, v->u.arr->item, v->u.arr->size, depth); o += "}"; break;
  case T_MAPPING: {
    mapping_t *m = v->u.map;
    std::vector<std::pair<std::string, std::string> > kv;
    for (int i = 0; i <= (int) m->table_size; i++)
      for (mapping_node_t *n = m->table[i]; n; n = n->next) {
        std::string k, val;
        js_value (k, &n->values[0], depth + 1);
        js_value (val, &n->values[1], depth + 1);
        kv.push_back (std::make_pair (k, val));
      }
    std::sort (kv.begin (), kv.end ());
    o += "{\"m\":[";
    for (size_t i = 0; i < kv.size (); i++) {
      if (i) o.push_back (',');
      o += "[" + kv[i].first + "," + kv[i].second + "]";
    }
    o += "],\"n\":"; snprintf (b, sizeof b, "%d", m->count); o += b; o += "}";
    break; }
  case T_BUFFER: {
    o += "{\"b\":\"";
    for (unsigned i = 0; i < v->u.buf->size; i++) { snprintf (b, sizeof b, "%02x", v->u.buf->item[i]); o += b; }
    o += "\"}"; break; }
  case T_OBJECT:
    if (v->u.ob->flags & O_DESTRUCTED) o += "0";
    else { o += "{\"o\":"; js_cstr (o, v->u.ob->name); o += "}"; }
    break;
  case T_FUNCTION:
    snprintf (b, sizeof b, "{\"fp\":%d}", (int) v->u.fp->hdr.type); o += b; break;
  default:
    snprintf (b, sizeof b, "{\"t\":%d}", (int) v->type); o += b; break;
  }
}

static void rec_begin (int step, const char *st) {
  char b[64]; snprintf (b, sizeof b, "{\"i\":%d,\"st\":\"%s\"", step, st); obuf += b;
}
static void rec_kv_str (const char *k, const std::string &s) { obuf += ",\""; obuf += k; obuf += "\":"; js_str (obuf, s); }
static void rec_kv_int (const char *k, long long v) { char b[64]; snprintf (b, sizeof b, ",\"%s\":%lld", k, v); obuf += b; }
static void rec_end () { obuf += "}\n"; out_flush (); }
void rec_begin_x (int step, const char *st) { rec_begin (step, st); }
void rec_kv_str_x (const char *k, const std::string &s) { rec_kv_str (k, s); }
void rec_kv_int_x (const char *k, long long v) { rec_kv_int (k, v); }
void rec_end_x () { rec_end (); }

// called by wraps.c when the driver code calls exit/_exit/abort
extern "C" void verif_note_termination (const char *how, int code) {
  char b[128]; snprintf (b, sizeof b, "{\"st\":\"terminated\",\"how\":\"%s\",\"code\":%d}\n", how, code);
  obuf += b; out_flush ();
}

// ------------------------------------------------------------------ input
static std::string unesc (const std::string &s) {
  std::string r;
  if (s == "%_") return r; // the empty argument
  for (size_t i = 0; i < s.size (); i++) {
    if (s[i] == '%' && i + 2 < s.size () + 1 && i + 2 <= s.size () - 1) {
      r.push_back ((char) strtol (s.substr (i + 1, 2).c_str (), 0, 16)); i += 2;
    } else r.push_back (s[i]);
  }
  return r;
}
static std::vector<std::string> split_line (const std::string &l) {
  std::vector<std::string> v; size_t i = 0;
  while (i < l.size ()) {
    size_t j = l.find (' ', i); if (j == std::string::npos) j = l.size ();
    if (j > i) v.push_back (unesc (l.substr (i, j - i)));
    i = j + 1;
  }
  return v;
}
static bool read_line (std::string &l) {
  l.clear (); int c;
  while ((c = getchar ()) != EOF) { if (c == '\n') return true; l.push_back ((char) c); }
  return !l.empty ();
}

// ------------------------------------------------------------------ monitor hook (C04/C05)
static long long hook_count = 0;
static long long inject_at = -1;       // raise a catchable error at this instruction count
static int inject_left = 0;
static long long budget_limit = -1;    // stop the child when dispatched instructions pass this
static long long max_sp = 0, max_csp = 0;
static long long max_arr = 0, max_map = 0, max_buf = 0, max_str = 0;
static int monitor_sizes = 0;
static int pc_violation = 0;
static int cur_step = -1;
static int evalcost_override = 0;   // set by the "evalcost" step: the next call keeps the scripted budget

static void begin_evaluation () {
  // like backend(): every top-level evaluation starts with a full budget
  if (!evalcost_override) eval_cost = CONFIG_INT (__MAX_EVAL_COST__);
  evalcost_override = 0;
}

static void check_size_of (svalue_t *v) {
  switch (v->type) {
  case T_ARRAY: case T_CLASS: if (v->u.arr->size > max_arr) max_arr = v->u.arr->size; break;
  case T_MAPPING: if (v->u.map->count > max_map) max_map = v->u.map->count; break;
  case T_BUFFER: if (v->u.buf->size > max_buf) max_buf = v->u.buf->size; break;
  case T_STRING: {
    long long n = (v->subtype & STRING_COUNTED) ? MSTR_SIZE (v->u.string) : 0;
    if (n == USHRT_MAX) n = (long long) SVALUE_STRLEN (v);
    if (n > max_str) max_str = n; break; }
  default: break;
  }
}

#ifdef NEOLITH_VERIF
static void dispatch_hook (int instruction) {
  (void) instruction;
  hook_count++;
  long long d = sp - start_of_stack; if (d > max_sp) max_sp = d;
  d = csp - control_stack; if (d > max_csp) max_csp = d;
  if (current_prog && current_prog->program && current_prog != &fake_prog) {
    const char *p = pc - 1;
    if (p < current_prog->program || p >= current_prog->program + current_prog->program_size) pc_violation++;
  }
  if (monitor_sizes) {
    for (svalue_t *s = sp; s >= start_of_stack && s > sp - 3; s--) check_size_of (s);
  }
  if (budget_limit >= 0 && hook_count > budget_limit) {
    rec_begin (cur_step, "budget_exceeded"); rec_kv_int ("count", hook_count); rec_end ();
    verif_harness_exiting = 1;
    _exit (0);
  }
  if (inject_at >= 0 && hook_count == inject_at && inject_left > 0) {
    inject_left--;
    error ("*injected fault");
  }
}
#endif

// ------------------------------------------------------------------ helpers
static object_t *find_ob (const std::string &name) {
  const char *n = name.c_str ();
  while (*n == '/') n++;
  object_t *ob = find_object_by_name (n);
  if (ob && (ob->flags & O_DESTRUCTED)) return 0;
  return ob;
}

static std::string last_master_error () {
  // the verification master stores the text of the last error it was handed
  std::string r;
  if (!master_ob || (master_ob->flags & O_DESTRUCTED)) return r;
  error_context_t econ;
  if (!save_context (&econ)) return r;
  if (!setjmp (econ.context)) {
    eval_cost = CONFIG_INT (__MAX_EVAL_COST__);
    svalue_t *ret = apply ("verif_take_error", master_ob, 0, ORIGIN_DRIVER);
    if (ret && ret->type == T_STRING) r.assign (ret->u.string, SVALUE_STRLEN (ret));
  } else {
    restore_context (&econ);
  }
  pop_context (&econ);
  return r;
}

static void push_arg (const std::string &a) {
  if (a.empty ()) { push_undefined (); return; }
  switch (a[0]) {
  case 'i': push_number (strtoll (a.c_str () + 1, 0, 10)); break;
  case 'f': push_real (strtod (a.c_str () + 1, 0)); break;
  case 's': copy_and_push_string (a.c_str () + 1); break;
  case 'o': { object_t *ob = find_ob (a.substr (1)); if (ob) push_object (ob); else push_number (0); break; }
  default: push_undefined ();
  }
}

static void snap_regs (int step) {
  rec_begin (step, "regs");
  rec_kv_int ("sp", sp - start_of_stack);
  rec_kv_int ("csp", csp - control_stack);
  rec_kv_int ("fp", fp ? fp - start_of_stack : -999999);
  rec_kv_str ("cur", current_object ? current_object->name : "");
  rec_kv_str ("prev", previous_ob ? previous_ob->name : "");
  rec_kv_str ("prog", current_prog ? current_prog->name : "");
  rec_kv_str ("cg", command_giver ? command_giver->name : "");
  rec_kv_str ("ci", current_interactive ? current_interactive->name : "");
  rec_kv_str ("chb", current_heart_beat ? current_heart_beat->name : "");
  rec_kv_int ("caller_type", caller_type);
  rec_kv_int ("fio", function_index_offset);
  rec_kv_int ("vio", variable_index_offset);
  rec_kv_int ("es", get_error_state (-1));
#ifdef NEOLITH_VERIF
  rec_kv_int ("ecd", neolith_verif_error_context_depth ());
  rec_kv_int ("ef", neolith_verif_error_flags ());
  rec_kv_int ("cgsd", neolith_verif_command_giver_stack_depth ());
  rec_kv_int ("nott", neolith_verif_num_objects_this_thread ());
  rec_kv_int ("rd", neolith_verif_restrict_destruct () ? 1 : 0);
#endif
  rec_end ();
}

// address-free summary of an object's program (C02): everything whose *order* depends on string addresses is sorted
static void prog_summary (int step, std::vector<std::string> &a) {
  object_t *ob = find_ob (a[1]);
  if (!ob || !ob->prog) { rec_begin (step, "noobj"); rec_end (); return; }
  program_t *p = ob->prog;
  rec_begin (step, "progsum");
  rec_kv_int ("program_size", p->program_size);
  rec_kv_int ("num_classes", p->num_classes);
  rec_kv_int ("nft", p->num_functions_total);
  rec_kv_int ("nfd", p->num_functions_defined);
  rec_kv_int ("nstr", p->num_strings);
  rec_kv_int ("nvt", p->num_variables_total);
  rec_kv_int ("nvd", p->num_variables_defined);
  rec_kv_int ("ninh", p->num_inherited);
  rec_kv_int ("heart_beat", p->heart_beat >= 0 ? 1 : 0);
  rec_kv_int ("total_size", p->total_size);
  std::vector<std::string> v;
  char b[600];
  for (int i = 0; i < p->num_functions_defined; i++) {
    compiler_function_t *f = &p->function_table[i];
    runtime_function_u *e = FIND_FUNC_ENTRY (p, f->runtime_index);
    snprintf (b, sizeof b, "%.400s|t%d|fl%x|a%d|l%d", f->name ? f->name : "?", (int) f->type, (unsigned) p->function_flags[f->runtime_index],
              (int) e->def.num_arg, (int) e->def.num_local);
    v.push_back (b);
  }
  std::sort (v.begin (), v.end ());
  obuf += ",\"functions\":[";
  for (size_t i = 0; i < v.size (); i++) { if (i) obuf += ","; js_str (obuf, v[i]); }
  obuf += "],\"variables\":[";
  for (int i = 0; i < p->num_variables_defined; i++) {
    snprintf (b, sizeof b, "%.400s|t%d", p->variable_table[i] ? p->variable_table[i] : "?", (int) p->variable_types[i]);
    if (i) obuf += ",";
    js_cstr (obuf, b);
  }
  v.clear ();
  for (int i = 0; i < p->num_strings; i++) v.push_back (p->strings[i] ? std::string (p->strings[i]).substr (0, 300) : std::string ("?"));
  std::sort (v.begin (), v.end ());
  obuf += "],\"strings\":[";
  for (size_t i = 0; i < v.size (); i++) { if (i) obuf += ","; js_str (obuf, v[i]); }
  obuf += "],\"inherits\":[";
  for (int i = 0; i < p->num_inherited; i++) { if (i) obuf += ","; js_cstr (obuf, p->inherit[i].prog ? p->inherit[i].prog->name : "?"); }
  obuf += "]";
  rec_end ();
}

static void snap_stats (int step) {
  rec_begin (step, "stats");
  rec_kv_int ("arrays", num_arrays);
  rec_kv_int ("array_size", (long long) total_array_size);
  rec_kv_int ("mappings", num_mappings);
  rec_kv_int ("map_nodes", total_mapping_nodes);
  rec_kv_int ("strings", num_distinct_strings);
  rec_kv_int ("allocd_strings", allocd_strings);
  rec_kv_int ("allocd_bytes", (long long) allocd_bytes);
  rec_kv_int ("objects", (long long) tot_alloc_object);
  rec_kv_int ("progs", (long long) total_num_prog_blocks);
  rec_kv_int ("sentences", tot_alloc_sentence);
  {
    int n = 0; for (object_t *o = obj_list; o; o = o->next_all) n++;
    rec_kv_int ("obj_list", n);
    n = 0; for (object_t *o = obj_list_destruct; o; o = o->next_all) n++;
    rec_kv_int ("obj_destruct", n);
  }
  if (__sanitizer_get_current_allocated_bytes)
    rec_kv_int ("heap", (long long) __sanitizer_get_current_allocated_bytes ());
  rec_end ();
}

static void report_monitor (int step) {
  rec_begin (step, "monitor");
  rec_kv_int ("count", hook_count);
  rec_kv_int ("max_sp", max_sp); rec_kv_int ("max_csp", max_csp);
  rec_kv_int ("max_arr", max_arr); rec_kv_int ("max_map", max_map);
  rec_kv_int ("max_buf", max_buf); rec_kv_int ("max_str", max_str);
  rec_kv_int ("pc_violation", pc_violation);
  rec_kv_int ("eval_cost", eval_cost);
  rec_end ();
}

// structural invariants of the object world (C08): returns a list of violations
static void check_invariants (int step) {
  std::vector<std::string> bad;
  char b[400];
  int nobj = 0;
  for (object_t *ob = obj_list; ob; ob = ob->next_all) {
    if (++nobj > 200000) { bad.push_back ("obj_list is cyclic or absurdly long"); break; }
    if (ob->flags & O_DESTRUCTED) { snprintf (b, sizeof b, "destructed object %s is still in obj_list", ob->name); bad.push_back (b); continue; }
    object_t *h = lookup_object_hash (ob->name);
    if (h != ob) { snprintf (b, sizeof b, "obj_list member %s is not the object found under its name (%s)", ob->name, h ? "another object" : "nothing"); bad.push_back (b); }
    if (ob->super) {
      if (ob->super->flags & O_DESTRUCTED) { snprintf (b, sizeof b, "%s has a destructed environment %s", ob->name, ob->super->name); bad.push_back (b); }
      int cnt = 0, n = 0;
      for (object_t *x = ob->super->contains; x && n < 100000; x = x->next_inv, n++) if (x == ob) cnt++;
      if (cnt != 1) { snprintf (b, sizeof b, "%s occurs %d times in the inventory of its environment %s", ob->name, cnt, ob->super->name); bad.push_back (b); }
      int depth = 0;
      for (object_t *x = ob->super; x; x = x->super) if (++depth > 10000) { snprintf (b, sizeof b, "environment chain of %s is cyclic", ob->name); bad.push_back (b); break; }
    }
    int n = 0;
    for (object_t *x = ob->contains; x; x = x->next_inv) {
      if (++n > 100000) { snprintf (b, sizeof b, "inventory chain of %s is cyclic", ob->name); bad.push_back (b); break; }
      if (x->flags & O_DESTRUCTED) { snprintf (b, sizeof b, "inventory of %s holds destructed %s", ob->name, x->name); bad.push_back (b); }
      if (x->super != ob) { snprintf (b, sizeof b, "%s is in the inventory of %s but its environment is %s", x->name, ob->name, x->super ? x->super->name : "none"); bad.push_back (b); }
    }
  }
  int nd = 0;
  for (object_t *ob = obj_list_destruct; ob; ob = ob->next_all) {
    if (++nd > 200000) break;
    if (!(ob->flags & O_DESTRUCTED)) { snprintf (b, sizeof b, "live object %s is in the destruct list", ob->name); bad.push_back (b); }
    if (ob->super || ob->contains) { snprintf (b, sizeof b, "destructed %s still has an environment or inventory", ob->name); bad.push_back (b); }
    if (ob->flags & O_HEART_BEAT) { snprintf (b, sizeof b, "destructed %s still has a heart beat", ob->name); bad.push_back (b); }
    if (ob->living_name) { snprintf (b, sizeof b, "destructed %s still has a living name", ob->name); bad.push_back (b); }
    if (ob->interactive) { snprintf (b, sizeof b, "destructed %s is still interactive", ob->name); bad.push_back (b); }
    if (lookup_object_hash (ob->name) == ob) { snprintf (b, sizeof b, "destructed %s is still found by name", ob->name); bad.push_back (b); }
  }
  for (int i = 0; i < CONFIG_INT (__LIVING_HASH_TABLE_SIZE__); i++) {
    int n = 0;
    for (object_t *x = hashed_living[i]; x && n < 100000; x = x->next_hashed_living, n++)
      if (x->flags & O_DESTRUCTED) { snprintf (b, sizeof b, "living hash holds destructed %s", x->name); bad.push_back (b); }
  }
  {
    array_t *hb = get_heart_beats ();
    for (int i = 0; i < hb->size; i++)
      if (hb->item[i].type == T_OBJECT && (hb->item[i].u.ob->flags & O_DESTRUCTED)) { snprintf (b, sizeof b, "heart beat list holds destructed %s", hb->item[i].u.ob->name); bad.push_back (b); }
    free_array (hb);
  }
  for (int i = 0; i < max_users; i++)
    if (all_users && all_users[i] && all_users[i]->ob && (all_users[i]->ob->flags & O_DESTRUCTED)) { snprintf (b, sizeof b, "user slot %d holds destructed %s", i, all_users[i]->ob->name); bad.push_back (b); }
  rec_begin (step, "invariants"); rec_kv_int ("objects", nobj); rec_kv_int ("destructed", nd);
  obuf += ",\"bad\":[";
  for (size_t i = 0; i < bad.size () && i < 20; i++) { if (i) obuf += ","; js_str (obuf, bad[i]); }
  obuf += "]"; rec_end ();
}

// run one call step inside an error context exactly like backend.c does
enum { R_VAL, R_ERR, R_NOFN, R_NOOB };

static void do_call (int step, std::vector<std::string> &a) {
  // call <obj> <fn> [args...]
  object_t *ob = find_ob (a[1]);
  if (!ob) { rec_begin (step, "noobj"); rec_end (); return; }
  error_context_t econ;
  volatile int st = R_VAL;
  if (!save_context (&econ)) { rec_begin (step, "err"); rec_kv_str ("msg", "save_context failed"); rec_end (); return; }
  if (setjmp (econ.context)) {
    restore_context (&econ);
    pop_context (&econ);
    std::string msg = last_master_error ();
    rec_begin (step, "err"); rec_kv_str ("msg", msg); rec_end ();
    return;
  }
  int n = 0;
  begin_evaluation ();
  for (size_t i = 3; i < a.size (); i++, n++) push_arg (a[i]);
  object_t *save_cg = command_giver;   // like call_out() and the backend loop: the command giver does not outlive the evaluation
  svalue_t *ret = apply (a[2].c_str (), ob, n, ORIGIN_DRIVER);
  command_giver = save_cg;
  pop_context (&econ);
  if (!ret) { rec_begin (step, "nofn"); rec_end (); (void) st; return; }
  rec_begin (step, "val");
  obuf += ",\"v\":"; sv_budget = 200000; js_value (obuf, ret, 0);
  rec_end ();
}

static void do_load (int step, std::vector<std::string> &a, bool clone) {
  error_context_t econ;
  if (!save_context (&econ)) { rec_begin (step, "err"); rec_kv_str ("msg", "save_context failed"); rec_end (); return; }
  if (setjmp (econ.context)) {
    restore_context (&econ);
    pop_context (&econ);
    std::string msg = last_master_error ();
    rec_begin (step, "err"); rec_kv_str ("msg", msg); rec_kv_int ("nerr", num_parse_error); rec_end ();
    return;
  }
  object_t *ob;
  begin_evaluation ();
  if (clone) ob = clone_object (a[1].c_str (), 0);
  else if (a.size () > 2) ob = load_object (a[1].c_str (), a[2].c_str ());
  else ob = find_or_load_object (a[1].c_str ());   // every real caller looks the name up first: load_object() itself never checks for an existing object
  pop_context (&econ);
  if (!ob) { rec_begin (step, "null"); rec_kv_int ("nerr", num_parse_error); rec_end (); return; }
  rec_begin (step, "ok"); rec_kv_str ("name", ob->name); rec_end ();
}

static void do_destruct (int step, std::vector<std::string> &a) {
  object_t *ob = find_ob (a[1]);
  if (!ob) { rec_begin (step, "noobj"); rec_end (); return; }
  error_context_t econ;
  if (!save_context (&econ)) return;
  if (setjmp (econ.context)) {
    restore_context (&econ); pop_context (&econ);
    rec_begin (step, "err"); rec_kv_str ("msg", last_master_error ()); rec_end (); return;
  }
  begin_evaluation ();
  destruct_object (ob);
  pop_context (&econ);
  rec_begin (step, "ok"); rec_end ();
}

// in lpcvm_backend.cpp
void run_backend_steps (std::vector<std::vector<std::string> > &steps, size_t &idx);

void run_direct_step (int i, std::vector<std::string> &a) {
  const std::string &c = a[0];
  cur_step = i;
  if (c == "load") do_load (i, a, false);
  else if (c == "clone") do_load (i, a, true);
  else if (c == "call") do_call (i, a);
  else if (c == "destruct") do_destruct (i, a);
  else if (c == "gc") {
    remove_destructed_objects ();
    rec_begin (i, "ok"); rec_end ();
  }
  else if (c == "clearcache") { clear_apply_cache (); rec_begin (i, "ok"); rec_end (); }
  else if (c == "regs") snap_regs (i);
  else if (c == "invariants") check_invariants (i);
  else if (c == "stats") snap_stats (i);
  else if (c == "progsum") prog_summary (i, a);
  else if (c == "evalcost") { eval_cost = strtoll (a[1].c_str (), 0, 10); evalcost_override = 1; }
  else if (c == "resetcost") { eval_cost = CONFIG_INT (__MAX_EVAL_COST__); }
  else if (c == "settime") { verif_clock_set (strtoll (a[1].c_str (), 0, 10)); current_time = verif_clock_get (); }
  else if (c == "inject") { // inject <k> [times]
    inject_at = hook_count + strtoll (a[1].c_str (), 0, 10); inject_left = a.size () > 2 ? atoi (a[2].c_str ()) : 1;
  }
  else if (c == "budget") { budget_limit = hook_count + strtoll (a[1].c_str (), 0, 10); }
  else if (c == "monitor") { // monitor on|off|report|reset
    if (a[1] == "on") monitor_sizes = 1;
    else if (a[1] == "off") monitor_sizes = 0;
    else if (a[1] == "reset") { hook_count = 0; max_sp = max_csp = max_arr = max_map = max_buf = max_str = 0; inject_at = -1; budget_limit = -1; }
    else report_monitor (i);
  }
  else if (c == "filelog") { // filelog on|off|dump
    if (a[1] == "on") verif_filelog_enable (1);
    else if (a[1] == "off") verif_filelog_enable (0);
    else {
      rec_begin (i, "filelog"); obuf += ",\"log\":[";
      int n = verif_filelog_count ();
      for (int k = 0; k < n; k++) {
        if (k) obuf += ",";
        obuf += "["; js_cstr (obuf, verif_filelog_func (k)); obuf += ","; js_cstr (obuf, verif_filelog_path (k)); obuf += "]";
      }
      obuf += "]"; rec_end ();
      verif_filelog_clear ();
    }
  }
  else { rec_begin (i, "badcmd"); rec_kv_str ("cmd", c); rec_end (); }
}

static void run_case (std::vector<std::vector<std::string> > &steps) {
  // As in the running driver, where backend()'s error context is below every evaluation: the contexts of the individual
  // steps are nested ones, never the outermost.
  static error_context_t outer;
  volatile size_t vi = 0;
  int have_outer = save_context (&outer);
  if (have_outer && setjmp (outer.context)) {
    restore_context (&outer);
    rec_begin ((int) vi, "outer_context_reached"); rec_end ();
    vi = vi + 1;
  }
  size_t i = vi;
  while (i < steps.size ()) {
    vi = i;
    if (steps[i][0] == "backend") {
      // all following steps up to "endbackend" are executed from inside backend()
      run_backend_steps (steps, i);
    } else {
      run_direct_step ((int) i, steps[i]);
      i++;
    }
  }
  if (have_outer) pop_context (&outer);
  rec_begin ((int) steps.size (), "done"); rec_kv_int ("count", hook_count); rec_kv_int ("pc_violation", pc_violation); rec_end ();
}

// ------------------------------------------------------------------ main
static void driver_startup (const char *conf, int console) {
  setlocale (LC_ALL, PLATFORM_UTF8_LOCALE);
  init_stem (0, 0, conf);
  MAIN_OPTION (console_mode) = console;
  init_config (MAIN_OPTION (config_file));
  debug_set_log_with_date (0);
  if (-1 == chdir (CONFIG_STR (__MUD_LIB_DIR__))) { perror ("chdir mudlib"); exit (2); }
  init_strings (CONFIG_INT (__SHARED_STRING_HASH_TABLE_SIZE__), CONFIG_INT (__MAX_STRING_LENGTH__));
  init_lpc_compiler (CONFIG_INT (__MAX_LOCAL_VARIABLES__), CONFIG_STR (__INCLUDE_DIRS__));
  setup_simulate ();
  eval_cost = CONFIG_INT (__MAX_EVAL_COST__);
  error_context_t econ;
  save_context (&econ);
  if (setjmp (econ.context)) {
    restore_context (&econ); pop_context (&econ);
    fprintf (stderr, "lpcvm: error in mudlib startup\n");
    exit (3);
  }
  current_time = time (NULL);
  init_simul_efun (CONFIG_STR (__SIMUL_EFUN_FILE__));
  init_master (CONFIG_STR (__MASTER_FILE__));
  preload_objects (0);
  pop_context (&econ);
}

int main (int argc, char **argv) {
  const char *conf = 0; int console = 0; int timeout_s = 20; int nofork = 0;
  const char *errfile = "lpcvm.stderr";
  for (int i = 1; i < argc; i++) {
    if (!strcmp (argv[i], "-f") && i + 1 < argc) conf = argv[++i];
    else if (!strcmp (argv[i], "--console")) console = 1;
    else if (!strcmp (argv[i], "--timeout") && i + 1 < argc) timeout_s = atoi (argv[++i]);
    else if (!strcmp (argv[i], "--errfile") && i + 1 < argc) errfile = argv[++i];
    else if (!strcmp (argv[i], "--nofork")) nofork = 1;
  }
  if (!conf) { fprintf (stderr, "usage: lpcvm -f conf\n"); return 2; }
  char errpath[PATH_MAX];
  if (errfile[0] == '/') snprintf (errpath, sizeof errpath, "%s", errfile);
  else { char cwd[PATH_MAX]; if (!getcwd (cwd, sizeof cwd)) return 2; snprintf (errpath, sizeof errpath, "%.2000s/%.1000s", cwd, errfile); }
  char confpath[PATH_MAX];
  if (!realpath (conf, confpath)) { perror (conf); return 2; }

  signal (SIGPIPE, SIG_IGN);
  verif_clock_set (1000000000); // virtual clock: fixed epoch, advanced only by scripts
  {
    // start-up chatter goes to the error file as well
    int fd = open (errpath, O_WRONLY | O_CREAT | O_TRUNC, 0644);
    if (fd >= 0) { dup2 (fd, 2); close (fd); }
  }
  driver_startup (confpath, console);
#ifdef NEOLITH_VERIF
  neolith_verif_dispatch_hook = dispatch_hook;
#endif
  obuf = "{\"st\":\"ready\"}\n"; out_flush ();

  std::string line;
  std::vector<std::vector<std::string> > steps;
  while (read_line (line)) {
    if (line != "END") { std::vector<std::string> v = split_line (line); if (!v.empty ()) steps.push_back (v); continue; }
    fflush (stdout);
    if (nofork) { run_case (steps); steps.clear (); continue; }
    pid_t pid = fork ();
    if (pid == 0) {
      int fd = open (errpath, O_WRONLY | O_CREAT | O_TRUNC, 0644);
      if (fd >= 0) { dup2 (fd, 2); close (fd); }
      int nul = open ("/dev/null", O_RDONLY); if (nul >= 0) { dup2 (nul, 0); close (nul); }
      run_case (steps);
      verif_harness_exiting = 1;
      _exit (0);
    }
    steps.clear ();
    int status = 0; bool timed_out = false;
    struct timespec t0; clock_gettime (CLOCK_MONOTONIC, &t0);
    long spin = 0;
    for (;;) {
      pid_t r = waitpid (pid, &status, WNOHANG);
      if (r == pid) break;
      if (r < 0 && errno != EINTR) break;
      struct timespec ts = {0, spin < 50 ? 100000 : 1000000}; nanosleep (&ts, 0); spin++;
      struct timespec t1; clock_gettime (CLOCK_MONOTONIC, &t1);
      if (t1.tv_sec - t0.tv_sec > timeout_s) { kill (pid, SIGKILL); waitpid (pid, &status, 0); timed_out = true; break; }
    }
    // child's stderr (debug log, sanitizer report)
    std::string err;
    {
      FILE *f = fopen (errpath, "rb");
      if (f) {
        fseek (f, 0, SEEK_END); long sz = ftell (f);
        long want = sz > 65536 ? 65536 : sz;
        // keep head (sanitizer summary is at the top) and tail
        fseek (f, 0, SEEK_SET); err.resize ((size_t) want);
        size_t got = fread (&err[0], 1, (size_t) want, f); err.resize (got);
        if (sz > want) {
          std::string tail; tail.resize (8192);
          fseek (f, sz - 8192, SEEK_SET); got = fread (&tail[0], 1, 8192, f); tail.resize (got);
          err += "\n...[cut]...\n" + tail;
        }
        fclose (f);
      }
    }
    // on a line of its own: a child killed in the middle of a record leaves an unterminated line behind
    obuf = "\n{\"st\":\"exit\"";
    if (timed_out) rec_kv_str ("kind", "timeout");
    else if (WIFSIGNALED (status)) { rec_kv_str ("kind", "signal"); rec_kv_int ("sig", WTERMSIG (status)); }
    else { rec_kv_str ("kind", "exit"); rec_kv_int ("code", WEXITSTATUS (status)); }
    rec_kv_str ("stderr", err);
    obuf += "}\n"; out_flush ();
  }
  verif_harness_exiting = 1;
  _exit (0);
}
